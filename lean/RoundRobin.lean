/-
Arithmetic corollary behind the round-robin balance clause (property C13).

The verification conditions generated from the Go code (roundRobinBalancer.Plan, clause
rr_kth_pair_to_member_k_mod_n) establish, for identical subscriptions, that the k-th topic-partition of the
sorted list is handed to member (k mod n) of the n sorted members.  The number of partitions member j holds
after K pairs is therefore the number of k < K with k % n = j.  This file proves that any two such totals
differ by at most one.
-/
import Mathlib

/-- partitions held by member j after K pairs were dealt out round-robin to n members -/
def rrTotal (K n j : ℕ) : ℕ := Nat.count (fun k => k % n = j) K

theorem rrTotal_eq (K n j : ℕ) (hn : 0 < n) (hj : j < n) :
    rrTotal K n j = K / n + if j < K % n then 1 else 0 := by
  unfold rrTotal
  have h : (fun k => k % n = j) = (fun k => k ≡ j [MOD n]) := by
    funext k
    simp [Nat.ModEq, Nat.mod_eq_of_lt hj]
  have := Nat.count_modEq_card K hn j
  rw [Nat.mod_eq_of_lt hj] at this
  simp only [h]
  convert this using 2

/-- round-robin totals of two members differ by at most one -/
theorem rr_balance (K n j j' : ℕ) (hn : 0 < n) (hj : j < n) (hj' : j' < n) :
    rrTotal K n j ≤ rrTotal K n j' + 1 := by
  rw [rrTotal_eq K n j hn hj, rrTotal_eq K n j' hn hj']
  split_ifs <;> omega
