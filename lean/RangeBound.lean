/-
Arithmetic lemmas behind the range balance strategy (properties C08, C13).

The Go code computes, with float64 arithmetic treated as exact real arithmetic (assumption A-float),
  min_i = floor(i * (n / m) + 1/2)      for member i of m members and n partitions
and gives member i the partitions [min_i, min_{i+1}).  `rb i n m` is that boundary.  The verification
conditions generated from the Go code use the four facts below as axioms about the SMT function
`rangebound`; this file proves them with Lean 4 / Mathlib, so they are not assumed.
-/
import Mathlib

noncomputable def rb (i n m : ℤ) : ℤ := ⌊(i : ℝ) * ((n : ℝ) / (m : ℝ)) + 1 / 2⌋

noncomputable def rstep (n m : ℤ) : ℤ := ⌊(n : ℝ) / (m : ℝ)⌋

/-- the first boundary is 0 -/
theorem rb_zero (n m : ℤ) : rb 0 n m = 0 := by
  unfold rb
  simp only [Int.cast_zero, zero_mul, zero_add]
  rw [Int.floor_eq_iff]
  constructor <;> norm_num

/-- the last boundary is the number of partitions -/
theorem rb_full (n m : ℤ) (hm : 0 < m) : rb m n m = n := by
  unfold rb
  have hm' : (m : ℝ) ≠ 0 := by exact_mod_cast (ne_of_gt hm)
  have h : (m : ℝ) * ((n : ℝ) / (m : ℝ)) = (n : ℝ) := by field_simp
  rw [h, Int.floor_eq_iff]
  constructor <;> linarith

/-- boundaries are monotone in the member index -/
theorem rb_mono (i j n m : ℤ) (hn : 0 ≤ n) (hm : 0 < m) (hij : i ≤ j) : rb i n m ≤ rb j n m := by
  unfold rb
  apply Int.floor_le_floor
  have hs : (0 : ℝ) ≤ (n : ℝ) / (m : ℝ) := by
    apply div_nonneg
    · exact_mod_cast hn
    · exact_mod_cast (le_of_lt hm)
  have hij' : (i : ℝ) ≤ (j : ℝ) := by exact_mod_cast hij
  have := mul_le_mul_of_nonneg_right hij' hs
  linarith

/-- consecutive boundaries are floor(n/m) or floor(n/m)+1 apart: range sizes differ by at most one -/
theorem rb_step (i n m : ℤ) :
    rb i n m + rstep n m ≤ rb (i + 1) n m ∧ rb (i + 1) n m ≤ rb i n m + rstep n m + 1 := by
  unfold rb rstep
  have h : ((i + 1 : ℤ) : ℝ) * ((n : ℝ) / (m : ℝ)) + 1 / 2
      = ((i : ℝ) * ((n : ℝ) / (m : ℝ)) + 1 / 2) + (n : ℝ) / (m : ℝ) := by
    push_cast
    ring
  rw [h]
  constructor
  · exact Int.le_floor_add _ _
  · have := Int.le_floor_add_floor ((i : ℝ) * ((n : ℝ) / (m : ℝ)) + 1 / 2) ((n : ℝ) / (m : ℝ))
    linarith
