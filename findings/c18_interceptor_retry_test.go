package sarama

import (
	"sync"
	"testing"
)

// Demonstration for obligations asyncProducer.dispatcher/callsite/safelyApplyInterceptor.fresh_only and
// .../iter-ensures/loop0.not_intercepted_again (C18): a message that is retried once passes the dispatcher
// twice (and the producer's internal chaser markers pass it too); each pass applied the interceptors again.
type verifCountingInterceptor struct {
	mu    sync.Mutex
	calls map[*ProducerMessage]int
	total int
}

func (c *verifCountingInterceptor) OnSend(m *ProducerMessage) {
	c.mu.Lock()
	c.calls[m]++
	c.total++
	c.mu.Unlock()
}

func TestVerifFindingInterceptorOnRetry(t *testing.T) {
	seedBroker := NewMockBroker(t, 1)
	leader1 := NewMockBroker(t, 2)
	leader2 := NewMockBroker(t, 3)

	metadataLeader1 := new(MetadataResponse)
	metadataLeader1.AddBroker(leader1.Addr(), leader1.BrokerID())
	metadataLeader1.AddTopicPartition("my_topic", 0, leader1.BrokerID(), nil, nil, nil, ErrNoError)
	seedBroker.Returns(metadataLeader1)

	ic := &verifCountingInterceptor{calls: map[*ProducerMessage]int{}}
	config := NewTestConfig()
	config.Producer.Flush.Messages = 1
	config.Producer.Return.Successes = true
	config.Producer.Retry.Backoff = 0
	config.Producer.Interceptors = []ProducerInterceptor{ic}
	producer, err := NewAsyncProducer([]string{seedBroker.Addr()}, config)
	if err != nil {
		t.Fatal(err)
	}
	seedBroker.Close()

	msg := &ProducerMessage{Topic: "my_topic", Key: nil, Value: StringEncoder(TestMessage)}
	producer.Input() <- msg
	prodNotLeader := new(ProduceResponse)
	prodNotLeader.AddTopicPartition("my_topic", 0, ErrNotLeaderForPartition)
	leader1.Returns(prodNotLeader)

	metadataLeader2 := new(MetadataResponse)
	metadataLeader2.AddBroker(leader2.Addr(), leader2.BrokerID())
	metadataLeader2.AddTopicPartition("my_topic", 0, leader2.BrokerID(), nil, nil, nil, ErrNoError)
	leader1.Returns(metadataLeader2)

	prodSuccess := new(ProduceResponse)
	prodSuccess.AddTopicPartition("my_topic", 0, ErrNoError)
	leader2.Returns(prodSuccess)
	expectResults(t, producer, 1, 0)
	leader1.Close()
	leader2.Close()
	closeProducer(t, producer)

	ic.mu.Lock()
	defer ic.mu.Unlock()
	if ic.calls[msg] != 1 || ic.total != 1 {
		t.Fatalf("one message submitted: interceptor ran %d times on it and %d times in total", ic.calls[msg], ic.total)
	}
}
