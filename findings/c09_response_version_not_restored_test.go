package sarama

import (
	"bytes"
	"testing"
	"time"
)

// Demonstration for obligations wire/OffsetResponse/fields, wire/DescribeAclsResponse/fields and
// wire/DeleteAclsResponse/fields (C09): the encoder takes the protocol version from the Version field, the decoder
// never stores the version it was called with into that field. The decoded value therefore differs from the
// encoded one (Version 0), and encoding it again gives the version-0 layout: fewer bytes, which no longer decode
// to the same value.
func verifC09RoundTrip(t *testing.T, name string, version int16, in encoder, out versionedDecoder, outVersion func() int16) {
	buf, err := encode(in, nil)
	if err != nil {
		t.Fatal(err)
	}
	if err := versionedDecode(buf, out, version); err != nil {
		t.Fatalf("%s: %v", name, err)
	}
	if outVersion() != version {
		t.Errorf("%s: encoded with Version %d, decoded value has Version %d", name, version, outVersion())
	}
	buf2, err := encode(out.(encoder), nil)
	if err != nil {
		t.Fatal(err)
	}
	if !bytes.Equal(buf, buf2) {
		t.Errorf("%s: re-encoding the decoded value gives %d bytes, the original encoding has %d\n first: %x\nsecond: %x", name, len(buf2), len(buf), buf, buf2)
	}
}

func TestVerifC09OffsetResponseVersionRestored(t *testing.T) {
	in := &OffsetResponse{Version: 2, ThrottleTimeMs: 7}
	in.AddTopicPartition("t", 3, 42)
	out := &OffsetResponse{}
	verifC09RoundTrip(t, "OffsetResponse", 2, in, out, func() int16 { return out.Version })
}

func TestVerifC09DescribeAclsResponseVersionRestored(t *testing.T) {
	in := &DescribeAclsResponse{Version: 1, ThrottleTime: 100 * time.Millisecond, ResourceAcls: []*ResourceAcls{{
		Resource: Resource{ResourceType: AclResourceTopic, ResourceName: "topic", ResourcePatternType: AclPatternLiteral},
		Acls:     []*Acl{{Principal: "p", Host: "h", Operation: AclOperationAll, PermissionType: AclPermissionAllow}},
	}}}
	out := &DescribeAclsResponse{}
	verifC09RoundTrip(t, "DescribeAclsResponse", 1, in, out, func() int16 { return out.Version })
}

func TestVerifC09DeleteAclsResponseVersionRestored(t *testing.T) {
	in := &DeleteAclsResponse{Version: 1, ThrottleTime: 100 * time.Millisecond, FilterResponses: []*FilterResponse{{
		MatchingAcls: []*MatchingAcl{{
			Resource: Resource{ResourceType: AclResourceTopic, ResourceName: "topic", ResourcePatternType: AclPatternLiteral},
			Acl:      Acl{Principal: "p", Host: "h", Operation: AclOperationAll, PermissionType: AclPermissionAllow},
		}},
	}}}
	out := &DeleteAclsResponse{}
	verifC09RoundTrip(t, "DeleteAclsResponse", 1, in, out, func() int16 { return out.Version })
}
