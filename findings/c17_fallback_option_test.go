package sarama

import "testing"

// Demonstration for obligation WithCustomFallbackPartitioner#lit0/ensures/sets_random (C17): the option
// ignored its argument and made the partitioner its own fallback, so a keyless message recursed forever
// (stack overflow) instead of being handed to the fallback partitioner.
func TestVerifFindingFallbackOption(t *testing.T) {
	fallback := NewHashPartitioner("t").(*hashPartitioner)
	p := NewCustomPartitioner(WithCustomFallbackPartitioner(fallback))("t").(*hashPartitioner)
	if p.random != Partitioner(fallback) {
		t.Fatalf("fallback partitioner not installed: random is the partitioner itself: %v", p.random == Partitioner(p))
	}
}
