package mocks

import (
	"errors"
	"testing"

	"github.com/Shopify/sarama"
)

type verifC20Reporter struct{ n int }

func (r *verifC20Reporter) Errorf(string, ...interface{}) { r.n++ }

// Demonstration for obligation mocks.NewAsyncProducer#lit0/iter-ensures/loop0.one_outcome_at_most (C20):
// when the checker function of an expectation fails, the mock AsyncProducer sends the message on Errors() and
// then still applies the scripted result, so with Producer.Return.Successes the same message is also delivered
// on Successes() (and a scripted failure is delivered as a second error): two outcomes for one message.
//
// Run from /repo with: go test -overlay <overlay mapping this file into mocks/> -vet=off -run TestVerifC20AsyncMockDoubleOutcome ./mocks/
func TestVerifC20AsyncMockDoubleOutcome(t *testing.T) {
	config := sarama.NewConfig()
	config.Producer.Return.Successes = true
	config.Producer.Return.Errors = true
	rep := &verifC20Reporter{}
	mp := NewAsyncProducer(rep, config)
	mp.ExpectInputWithMessageCheckerFunctionAndSucceed(func(*sarama.ProducerMessage) error {
		return errors.New("checker says no")
	})
	msg := &sarama.ProducerMessage{Topic: "t", Value: sarama.StringEncoder("v")}
	mp.Input() <- msg
	if err := mp.Close(); err != nil {
		t.Fatal(err)
	}
	outcomes := 0
	for e := range mp.Errors() {
		if e.Msg == msg {
			outcomes++
		}
	}
	for s := range mp.Successes() {
		if s == msg {
			outcomes++
		}
	}
	if outcomes != 1 {
		t.Errorf("the message got %d outcomes, want exactly 1 (reporter calls: %d)", outcomes, rep.n)
	}
}
