package sarama

import "testing"

// Demonstration for obligation clusterAdmin.retryOnError/ensures/called (C19):
// with Admin.Retry.Max == 0 the wrapped operation was never attempted and nil (success) was returned.
func TestVerifFindingRetryMaxZero(t *testing.T) {
	conf := NewConfig()
	conf.Admin.Retry.Max = 0
	ca := &clusterAdmin{conf: conf}
	calls := 0
	err := ca.retryOnError(func(error) bool { return true }, func() error { calls++; return ErrNotController })
	if calls == 0 || err == nil {
		t.Fatalf("retryOnError made %d attempts and returned %v", calls, err)
	}
}
