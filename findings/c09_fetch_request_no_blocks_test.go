package sarama

import "testing"

// Demonstration for obligation wire/FetchRequest/dual (C09): the decoder returned as soon as it had read an empty
// topic array, leaving the fields the encoder writes after that array unread, so the bytes produced by encode did
// not decode (trailing bytes: "invalid length").

// FetchRequest v7+: the forgotten-topics array, and from v11 the rack id, follow the topic array.
func TestVerifC09FetchRequestNoBlocksRoundTrip(t *testing.T) {
	for _, version := range []int16{7, 11} {
		req := &FetchRequest{Version: version, MaxWaitTime: 100, MinBytes: 1, MaxBytes: 1 << 20, SessionID: 3, SessionEpoch: 4}
		req.forgotten = map[string][]int32{"gone": {1, 2}}
		if version >= 11 {
			req.RackID = "rack-1"
		}
		buf, err := encode(req, nil)
		if err != nil {
			t.Fatal(err)
		}
		var out FetchRequest
		if err := versionedDecode(buf, &out, version); err != nil {
			t.Errorf("v%d: the encoded request does not decode: %v", version, err)
			continue
		}
		if len(out.forgotten["gone"]) != 2 || out.RackID != req.RackID {
			t.Errorf("v%d: decoded forgotten=%v rack=%q, want %v %q", version, out.forgotten, out.RackID, req.forgotten, req.RackID)
		}
	}
}
