package sarama

import "testing"

// Demonstration for obligation asyncProducer.retryBatch/ensures/conserve (C01, C05):
// a two-message batch whose first message has exhausted its retry budget: only the first message got an
// error; the second was neither failed nor resent (inFlight never reached zero, so Close would hang).
func TestVerifFindingRetryBatch(t *testing.T) {
	conf := NewConfig()
	conf.Producer.Retry.Max = 1
	conf.Producer.Return.Errors = true
	txnmgr := &transactionManager{producerID: noProducerID, producerEpoch: noProducerEpoch}
	p := &asyncProducer{conf: conf, txnmgr: txnmgr, errors: make(chan *ProducerError, 10)}
	m1 := &ProducerMessage{Topic: "t", retries: 1}
	m2 := &ProducerMessage{Topic: "t", retries: 1}
	p.inFlight.Add(2)
	pSet := &partitionSet{msgs: []*ProducerMessage{m1, m2}}
	p.retryBatch("t", 0, pSet, ErrOutOfOrderSequenceNumber)
	if n := len(p.errors); n != 2 {
		t.Fatalf("2 messages in the failed batch, %d terminal events", n)
	}
}
