package sarama

import (
	"testing"
)

// Demonstration for obligation RecordBatch.decode/ensures/records_fully_consumed (C10, also C03/C11):
// a record batch with the zstd codec whose payload is only a skippable zstd frame decompresses to a nil
// slice with a nil error; decode() skips a nil buffer altogether, so RecordBatch.decode returned err == nil
// with b.Records holding the announced number of nil *Record. The consumer then dereferenced them
// (parseRecords: rec.OffsetDelta) and the process panicked on a malformed fetch response.
//
// Run from /repo with: go test -overlay <overlay mapping this file into the package> -vet=off -run TestVerifC10ZstdNilRecords .
// Before the fix: panic (nil pointer dereference). After: the batch is reported as a partial trailing record.
func TestVerifC10ZstdNilRecords(t *testing.T) {
	payload := []byte{0x50, 0x2A, 0x4D, 0x18, 0, 0, 0, 0} // zstd skippable frame, 0 bytes of user data
	pe := &realEncoder{raw: make([]byte, 200)}
	pe.putInt64(0)                                         // first offset
	pe.putInt32(int32(recordBatchOverhead + len(payload))) // batch length
	pe.putInt32(0)                                         // partition leader epoch
	pe.putInt8(2)                                          // magic
	crcPos := pe.off
	pe.putInt32(0)                      // crc, filled in below
	pe.putInt16(int16(CompressionZSTD)) // attributes: codec zstd
	pe.putInt32(2)                      // last offset delta
	pe.putInt64(0)                      // first timestamp
	pe.putInt64(0)                      // max timestamp
	pe.putInt64(-1)                     // producer id
	pe.putInt16(-1)                     // producer epoch
	pe.putInt32(-1)                     // first sequence
	pe.putInt32(3)                      // number of records announced
	_ = pe.putRawBytes(payload)
	end := pe.off
	crc := &crc32Field{polynomial: crcCastagnoli}
	crc.saveOffset(crcPos)
	if err := crc.run(end, pe.raw); err != nil {
		t.Fatal(err)
	}
	var rb RecordBatch
	err := decode(pe.raw[:end], &rb)
	t.Logf("decode: err=%v records=%v partial=%v", err, rb.Records, rb.PartialTrailingRecord)
	if err != nil {
		return // rejecting the batch is fine
	}
	for i, r := range rb.Records {
		if r == nil {
			t.Errorf("record %d is nil although decode reported success", i)
		}
	}
	child := &partitionConsumer{topic: "t", partition: 0}
	if _, err := child.parseRecords(&rb); err != nil { // panicked here before the fix
		t.Logf("parseRecords: %v", err)
	}
}
