package sarama

import (
	"encoding/binary"
	"io"
	"net"
	"sync/atomic"
	"testing"
	"time"
)

// Demonstration for obligation Broker.send/callsite/write.wire_bound (C14): with Net.MaxOpenRequests = 1 and a
// server that never answers, two requests reach the wire: send() writes a request before it enqueues the
// promise, so the bound actually enforced is MaxOpenRequests+1.
func TestVerifFindingWireBound(t *testing.T) {
	ln, err := net.Listen("tcp", "127.0.0.1:0")
	if err != nil {
		t.Fatal(err)
	}
	defer ln.Close()
	var received int32
	go func() {
		conn, err := ln.Accept()
		if err != nil {
			return
		}
		defer conn.Close()
		for {
			var hdr [4]byte
			if _, err := io.ReadFull(conn, hdr[:]); err != nil {
				return
			}
			body := make([]byte, binary.BigEndian.Uint32(hdr[:]))
			if _, err := io.ReadFull(conn, body); err != nil {
				return
			}
			atomic.AddInt32(&received, 1) // never answer
		}
	}()

	conf := NewTestConfig()
	conf.Net.MaxOpenRequests = 1
	conf.Net.ReadTimeout = 2 * time.Second
	broker := NewBroker(ln.Addr().String())
	if err := broker.Open(conf); err != nil {
		t.Fatal(err)
	}
	if ok, err := broker.Connected(); !ok {
		t.Fatal(err)
	}
	for i := 0; i < 3; i++ {
		go func() { _, _ = broker.GetMetadata(&MetadataRequest{}) }()
	}
	time.Sleep(500 * time.Millisecond)
	n := atomic.LoadInt32(&received)
	_ = broker.Close()
	if n > int32(conf.Net.MaxOpenRequests) {
		t.Fatalf("Net.MaxOpenRequests = %d but %d requests were on the wire awaiting a response", conf.Net.MaxOpenRequests, n)
	}
}
