package sarama

import (
	"sync"
	"testing"
	"time"
)

// Demonstration for obligation partitionConsumer.responseFeeder/callsite/send.messages.intercepted_exactly_once#1
// (C18): when the reader is slower than MaxProcessingTime the feeder takes its slow-reader path, which applies
// the interceptor chain again to the message it was already holding.
type verifConsumeCounter struct {
	mu    sync.Mutex
	calls map[int64]int
}

func (c *verifConsumeCounter) OnConsume(m *ConsumerMessage) {
	c.mu.Lock()
	c.calls[m.Offset]++
	c.mu.Unlock()
}

func TestVerifFindingConsumerInterceptorSlowReader(t *testing.T) {
	broker0 := NewMockBroker(t, 0)
	fetchResponse1 := &FetchResponse{}
	for i := 1; i <= 4; i++ {
		fetchResponse1.AddMessage("my_topic", 0, nil, testMsg, int64(i))
	}
	broker0.SetHandlerByMap(map[string]MockResponse{
		"MetadataRequest": NewMockMetadataResponse(t).
			SetBroker(broker0.Addr(), broker0.BrokerID()).
			SetLeader("my_topic", 0, broker0.BrokerID()),
		"OffsetRequest": NewMockOffsetResponse(t).
			SetOffset("my_topic", 0, OffsetNewest, 1234).
			SetOffset("my_topic", 0, OffsetOldest, 1),
		"FetchRequest": NewMockSequence(fetchResponse1),
	})

	ic := &verifConsumeCounter{calls: map[int64]int{}}
	config := NewTestConfig()
	config.ChannelBufferSize = 0
	config.Consumer.MaxProcessingTime = 5 * time.Millisecond
	config.Consumer.Interceptors = []ConsumerInterceptor{ic}
	master, err := NewConsumer([]string{broker0.Addr()}, config)
	if err != nil {
		t.Fatal(err)
	}
	consumer, err := master.ConsumePartition("my_topic", 0, 1)
	if err != nil {
		t.Fatal(err)
	}
	// a slow reader: longer than two expiry ticks per message
	for i := 1; i <= 4; i++ {
		time.Sleep(30 * time.Millisecond)
		assertMessageOffset(t, <-consumer.Messages(), int64(i))
	}
	safeClose(t, consumer)
	safeClose(t, master)
	broker0.Close()

	ic.mu.Lock()
	defer ic.mu.Unlock()
	for off := int64(1); off <= 4; off++ {
		if ic.calls[off] != 1 {
			t.Errorf("message at offset %d was intercepted %d times before delivery", off, ic.calls[off])
		}
	}
}
