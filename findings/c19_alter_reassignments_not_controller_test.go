package sarama

import (
	"sync/atomic"
	"testing"
)

// answers AlterPartitionReassignments with a fixed top-level error code and counts the requests it sees
type verifC19Reassign struct {
	code  KError
	calls *int32
}

func (m verifC19Reassign) For(reqBody versionedDecoder) encoderWithHeader {
	atomic.AddInt32(m.calls, 1)
	return &AlterPartitionReassignmentsResponse{ErrorCode: m.code}
}

// Demonstration for obligation clusterAdmin.AlterPartitionReassignments#lit0/ensures/refresh_on_not_controller (C19):
// AlterPartitionReassignments is controller-bound, but a NOT_CONTROLLER answer is wrapped into ErrReassignPartitions,
// which isErrNoController does not recognise: the controller is not refreshed and the operation is not retried,
// although Admin.Retry.Max allows it and the new controller would accept the request.
//
// Broker 1 is the controller the admin knows first; it answers NOT_CONTROLLER. The metadata then names broker 2 as
// controller, which accepts. Before the fix: the call fails after one request to broker 1 and none to broker 2.
func TestVerifC19AlterReassignmentsNotController(t *testing.T) {
	b1 := NewMockBroker(t, 1)
	defer b1.Close()
	b2 := NewMockBroker(t, 2)
	defer b2.Close()

	var calls1, calls2, metadataCalls int32
	metadata := func(controller int32) MockResponse {
		return NewMockMetadataResponse(t).
			SetController(controller).
			SetBroker(b1.Addr(), b1.BrokerID()).
			SetBroker(b2.Addr(), b2.BrokerID())
	}
	// the first metadata answer names broker 1 as controller, every later one broker 2
	b1.setHandler(func(req *request) (res encoderWithHeader) {
		switch body := req.body.(type) {
		case *MetadataRequest:
			if atomic.AddInt32(&metadataCalls, 1) == 1 {
				return metadata(1).For(body)
			}
			return metadata(2).For(body)
		case *AlterPartitionReassignmentsRequest:
			return verifC19Reassign{ErrNotController, &calls1}.For(body)
		}
		return nil
	})
	b2.SetHandlerByMap(map[string]MockResponse{
		"MetadataRequest":                    metadata(2),
		"AlterPartitionReassignmentsRequest": verifC19Reassign{ErrNoError, &calls2},
	})

	config := NewTestConfig()
	config.Version = V2_4_0_0
	config.Admin.Retry.Max = 3
	config.Admin.Retry.Backoff = 0
	admin, err := NewClusterAdmin([]string{b1.Addr()}, config)
	if err != nil {
		t.Fatal(err)
	}
	defer func() { _ = admin.Close() }()

	err = admin.AlterPartitionReassignments("my_topic", [][]int32{{1, 2}})
	t.Logf("result=%v, requests to old controller=%d, to new controller=%d", err, atomic.LoadInt32(&calls1), atomic.LoadInt32(&calls2))
	if err != nil {
		t.Errorf("the operation failed although the current controller would have accepted it within Admin.Retry.Max: %v", err)
	}
	if atomic.LoadInt32(&calls2) != 1 {
		t.Errorf("the new controller received %d requests, want 1", atomic.LoadInt32(&calls2))
	}
}
