#!/bin/bash
# usage: import_mutants.sh <agent worktree out dir> <round tag> [PROP]
# Copies out/m<k>/{patch.diff,demo_test.go,README.md} to /verif/seeded/<PROP>_<tag><k>/ (PROP from the PROPERTY file in
# the directory, or the third argument), then confirms each in a scratch worktree (CONFIRM_ONLY run of
# eval_mutant.sh) and prints a one-line verdict per change.
OUT=$1; TAG=$2; DEF=$3
for d in $OUT/m*/; do
  [ -f $d/patch.diff ] || continue
  k=$(basename $d | tr -d m)
  P=$DEF; [ -f $d/PROPERTY ] && P=$(tr -d ' \n' < $d/PROPERTY)
  id=${P}_${TAG}${k}
  mkdir -p /verif/seeded/$id
  cp $d/patch.diff $d/demo_test.go /verif/seeded/$id/
  cp $d/README.md /verif/seeded/$id/agent_README.md 2>/dev/null
  echo $id
done > /tmp/import_ids.txt
cat /tmp/import_ids.txt | xargs -P 6 -I{} sh -c 'CONFIRM_ONLY=1 /verif/tools/eval_mutant.sh /verif/seeded/{} > /tmp/confirm_{}.txt 2>&1'
for id in $(cat /tmp/import_ids.txt); do
  f=/tmp/confirm_$id.txt
  clean=$(awk '/== demo on clean tree/{f=1;next} /== build/{f=0} f' $f | grep -c "^ok")
  mut=$(awk '/== demo with mutant/{f=1;next} /== existing/{f=0} f' $f | grep -c "FAIL")
  suite=$(awk '/== existing suite/{f=1;next} f' $f | grep -c "^ok")
  echo "$id clean_ok=$clean mutant_fail=$mut suite_ok=$suite"
done
