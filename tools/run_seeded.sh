#!/bin/bash
# Applies every seeded change under /verif/seeded to /repo (one at a time), runs the check of the property it
# breaks and records whether the check reported a violation. /repo must be clean; it is restored after each.
export GOFLAGS=-mod=mod GOPROXY=off GOSUMDB=off GOTOOLCHAIN=local
if [ -n "$(git -C /repo status --porcelain)" ]; then echo "REFUSING: /repo has uncommitted changes"; exit 4; fi
OUT=/verif/seeded/results.txt
if [ -n "$1" ]; then grep -v "^$1" $OUT > $OUT.keep 2>/dev/null; mv $OUT.keep $OUT; else : > $OUT; fi
for D in /verif/seeded/*/; do
  N=$(basename $D); [ -f $D/patch.diff ] || continue
  if [ -n "$1" ] && [[ "$N" != $1* ]]; then continue; fi
  P=$(python3 -c "import json;print(json.load(open('$D/meta.json'))['property'])")
  git -C /repo apply $D/patch.diff 2>/dev/null || { echo "$N $P PATCH-DOES-NOT-APPLY" | tee -a $OUT; continue; }
  /verif/bin/check $P --tier quick > /tmp/seeded_$N.out 2>&1; RC=$?
  V=$(grep -c "^VIOLATION" /tmp/seeded_$N.out)
  FIRST=$(grep "^VIOLATION" /tmp/seeded_$N.out | head -1 | sed 's/.*obligation=//' | cut -c1-260)
  echo "$N $P exit=$RC violations=$V $FIRST" | tee -a $OUT
  TOUCHED="$TOUCHED $P"
  git -C /repo checkout -- .
done
# refresh evidence: the evidence files are rewritten by every run, including the runs above on changed trees;
# what is committed must describe the unchanged tree
sort -o $OUT $OUT
for P in $(echo $TOUCHED | tr ' ' '\n' | sort -u); do /verif/bin/check $P --tier quick > /dev/null 2>&1 || echo "WARNING: check $P does not pass on the unchanged tree"; done
