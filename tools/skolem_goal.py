#!/usr/bin/env python3
"""Debug helper: turns the negated universally quantified goal of an SMT query into constants and prints the
values the solver's model gives to the listed terms.  usage: skolem_goal.py file.smt2 'term1' 'term2' ..."""
import sys, re, subprocess
f = sys.argv[1]
s = open(f).read()
i = s.rindex("(assert (not ")
goal = s[i + len("(assert (not "):]
goal = goal[:goal.index("(check-sat)")].rstrip()
goal = goal[:-2]  # closes (not and (assert
decls = []
# peel leading foralls (possibly under an implication chain is not handled: only top-level foralls)
while goal.startswith("(forall ("):
    m = re.match(r"\(forall \(\((\S+) ([^()]+|\([^()]*\))\)\) ", goal)
    if not m:
        break
    decls.append("(declare-const %s %s)" % (m.group(1), m.group(2)))
    goal = goal[m.end():-1]
out = s[:i] + "\n".join(decls) + "\n(assert (not " + goal + "))\n(check-sat)\n"
terms = sys.argv[2:]
names = [d.split()[1] for d in decls]
out += "(get-value (" + " ".join(names + terms) + "))\n"
open('/tmp/skolem.smt2', 'w').write(out)
r = subprocess.run(['z3-new', '-T:30', '/tmp/skolem.smt2'], capture_output=True, text=True)
print(r.stdout[:3000])
