#!/usr/bin/env python3
"""Prints the markdown table 'which check catches which seeded change' from seeded/results.txt and the
meta.json files (used for DESIGN.md section 11.6)."""
import json, os
res = {}
for ln in open('/verif/seeded/results.txt'):
    p = ln.split()
    if len(p) < 4:
        continue
    name, prop, ex, viol = p[0], p[1], p[2], p[3]
    first = ' '.join(p[4:]) if len(p) > 4 else ''
    res[name] = (prop, ex, viol, first)
print("| change | property | what it breaks | check result | first failing obligation |")
print("|---|---|---|---|---|")
for name in sorted(res):
    prop, ex, viol, first = res[name]
    meta = {}
    mp = '/verif/seeded/%s/meta.json' % name
    if os.path.exists(mp):
        meta = json.load(open(mp))
    what = (meta.get('what') or meta.get('needs') or '').replace('|', '/').replace('\n', ' ')
    if len(what) > 150:
        what = what[:147] + '...'
    verdict = 'detected' if ex == 'exit=1' else ('UNDECIDED' if ex == 'exit=2' else '**missed**')
    ob = first.split(' status=')[0]
    st = ''
    if ' status=' in first:
        rest = first.split(' status=')[1].split()
        st = rest[0] if rest else ''
    print("| %s | %s | %s | %s (%s) | %s%s |" % (name, prop, what, verdict, viol.replace('violations=', '') + ' violations', '`' + ob + '`' if ob else '-', (' (' + st + ')') if st else ''))
det = sum(1 for v in res.values() if v[1] == 'exit=1')
print()
print("%d of %d seeded changes are reported as violations." % (det, len(res)))
