#!/usr/bin/env python3
"""Regenerates /verif/MANIFEST.json from /verif/tools/claims.json (kept by hand) and properties.jsonl."""
import json, subprocess
props=[json.loads(l) for l in open('/verif/properties.jsonl')]
claims=json.load(open('/verif/tools/claims.json'))
claimed=claims["claimed"]; na_reasons=claims["not_applicable"]
checks=[]
for pid in sorted(claimed):
    c=claimed[pid]
    checks.append({
      "property_id":pid,
      "quick_cmd":"/verif/bin/check %s --tier quick"%pid,
      "thorough_cmd":"/verif/bin/check %s --tier thorough"%pid,
      "evidence_file":"/verif/evidence/%s.json"%pid,
      "replay_cmd_template":"/verif/bin/check %s --replay {path}"%pid,
      "engine":"govc",
      "level_claimed":{"category":"proof","text":c["text"],"design_ref":"DESIGN.md section 5, "+pid},
      "level_note":c["note"],
      "technique":c.get("technique","contract-based deductive verification: contracts on the real Go functions, weakest-precondition VC generation (govc), SMT (z3/cvc5)")
    })
na=[]
for p in props:
    if p["id"] not in claimed:
        na.append({"property_id":p["id"],"reason":na_reasons.get(p["id"],"not claimed: contracts for this property are not built at this commit (DESIGN.md sections 5 and 6)")})
hooks=subprocess.run("git -C /repo log --format=%H%x09%s",shell=True,capture_output=True,text=True).stdout.strip().split("\n")
hook_commits=[l.split("\t")[0] for l in hooks if "\t" in l and (l.split("\t")[1].startswith("verif hook") or l.split("\t")[1].startswith("fix:"))]
m={
 "version":1,
 "setup_cmd":"cd /verif/govc && GOFLAGS=-mod=mod GOPROXY=off GOSUMDB=off GOTOOLCHAIN=local go build -o /verif/bin/govc .",
 "hooks":{"guard":"verif","enable":"govc loads /repo with go/packages -tags verif; the hook files (verif_contracts.go, mocks/verif_contracts.go) are comment-only (//@ contract lines) behind //go:build verif","baseline_off_cmd":"cd /repo && go test -vet=off -count=1 ./...","source_commits":hook_commits,"add_only":True},
 "engines":[{"name":"govc","path":"/verif/govc","serves_properties":sorted(claimed),"kind_free_text":"WP/VC generator over the go/types typed AST of /repo with its own CFG lowering (loops cut at invariants, modular calls by contract); SMT back ends z3 4.8.12, z3 5.1.0, cvc5 1.0.3; counterexamples replayed on the real code through go test -overlay"}],
 "checks":checks,
 "not_applicable":na,
 "notes":"Contract-based deductive verification of the real code; see DESIGN.md. Repaired defects are recorded in known_findings.json (status fixed); hooks.source_commits lists the hook commits and the fix: commits in /repo."
}
json.dump(m,open('/verif/MANIFEST.json','w'),indent=1)
print("claimed:",sorted(claimed))
