#!/usr/bin/env python3
"""Rebuilds section 11 of DESIGN.md from tools/asbuilt_section.md and the seeded results table."""
import subprocess
BEGIN = "<!-- BEGIN as-built (generated from tools/asbuilt_section.md by tools/splice_asbuilt.py) -->\n"
END = "<!-- END as-built -->\n"
sec = open('/verif/tools/asbuilt_section.md').read()
table = subprocess.run(['python3', '/verif/tools/gen_seeded_table.py'], capture_output=True, text=True).stdout
sec = sec.replace('SEEDED_TABLE', table.strip())
# numbers of section 11.1 from the evidence files of the last clean run
import json, re, os
def fix_row(m):
    pid = m.group(1)
    ev = '/verif/evidence/%s.json' % pid
    if not os.path.exists(ev):
        return m.group(0)
    c = json.load(open(ev))['coverage']
    cells = m.group(0).rstrip('\n').split('|')
    # | id | status | decided by | functions | obligations |
    funcs = cells[4].strip()
    n = len(c.get('functions_under_contract') or [])
    funcs = re.sub(r'^\d+', str(n), funcs) if re.match(r'^\d+', funcs) else funcs
    cells[4] = ' ' + funcs + ' '
    cells[5] = ' %d ' % c['obligations']
    return '|'.join(cells) + '\n'
sec = re.sub(r'^\| (C\d\d) \|[^\n]*\n', fix_row, sec, flags=re.M)
p = '/verif/DESIGN.md'
s = open(p).read()
block = BEGIN + sec.rstrip('\n') + "\n\n" + END
if BEGIN in s:
    a = s.index(BEGIN); b = s.index(END) + len(END)
    s = s[:a] + block + s[b:]
else:
    marker = "# Appendices (implementation-grade detail"
    a = s.index(marker)
    s = s[:a] + block + "\n---\n\n" + s[a:]
open(p, 'w').write(s)
print("section 11 spliced:", len(sec.splitlines()), "lines")
