#!/bin/bash
# Applies every harmless refactoring under /verif/seeded_benign to /repo (one at a time) and expects the check of
# its property to stay green (exit 0, no VIOLATION line). /repo must be clean; it is restored after each.
export GOFLAGS=-mod=mod GOPROXY=off GOSUMDB=off GOTOOLCHAIN=local
if [ -n "$(git -C /repo status --porcelain)" ]; then echo "REFUSING: /repo has uncommitted changes"; exit 4; fi
OUT=/verif/seeded_benign/results.txt; : > $OUT
for D in /verif/seeded_benign/*/; do
  N=$(basename $D); [ -f $D/patch.diff ] || continue
  P=$(python3 -c "import json;print(json.load(open('$D/meta.json'))['property'])")
  git -C /repo apply $D/patch.diff 2>/dev/null || { echo "$N $P PATCH-DOES-NOT-APPLY" | tee -a $OUT; continue; }
  (cd /repo && go build ./... ) > /tmp/benign_build_$N.out 2>&1 || { echo "$N $P DOES-NOT-COMPILE" | tee -a $OUT; git -C /repo checkout -- .; continue; }
  /verif/bin/check $P --tier quick > /tmp/benign_$N.out 2>&1; RC=$?
  V=$(grep -c "^VIOLATION" /tmp/benign_$N.out)
  FIRST=$(grep "^VIOLATION\|^UNDECIDED" /tmp/benign_$N.out | head -1 | cut -c1-160)
  VERDICT=green; [ $RC -ne 0 ] && VERDICT="NOT-GREEN"
  echo "$N $P exit=$RC violations=$V $VERDICT $FIRST" | tee -a $OUT
  git -C /repo checkout -- .
  TOUCHED="$TOUCHED $P"
done
for P in $(echo $TOUCHED | tr ' ' '\n' | sort -u); do /verif/bin/check $P --tier quick > /dev/null 2>&1 || echo "WARNING: check $P does not pass on the unchanged tree"; done
