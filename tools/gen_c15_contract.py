#!/usr/bin/env python3
"""Regenerates the contract of client.updateMetadata in /repo/verif_contracts.go.

The clauses of the contract are stated three times (postcondition, invariant of the loop over topics,
invariant of the nested loop over partitions) with different bounds; writing them by hand invites drift, so
this script expands them from one definition each. It rewrites the text between the two marker lines."""
import sys
PATH = sys.argv[1] if len(sys.argv) > 1 else '/repo/verif_contracts.go'
BEGIN = '// BEGIN generated: client.updateMetadata (tools/gen_c15_contract.py in the verification directory)\n'
END = '// END generated: client.updateMetadata\n'

T = 'data.Topics'
def last(n): return "(forall j2 :: k < j2 && j2 < %s ==> %s[j2].Name != %s[k].Name)" % (n, T, T)
stored = "(%s[k].Err == ErrNoError || %s[k].Err == ErrLeaderNotAvailable)" % (T, T)
cause = "(%s[k].Err == ErrUnknownTopicOrPartition || %s[k].Err == ErrLeaderNotAvailable || (%s[k].Err == ErrNoError && exists j :: 0 <= j && j < len(%s[k].Partitions) && %s[k].Partitions[j].Err == ErrLeaderNotAvailable))" % (T, T, T, T, T)

# each family: f(n, m): n bounds the topics considered, m bounds the "no later topic of the same name" test
def tracked(n, m): return "forall k :: 0 <= k && k < %s ==> haskey(client.metadataTopics, %s[k].Name)" % (n, T)
def forgotten(n, m): return "forall k :: 0 <= k && k < %s && %s && !%s ==> !haskey(client.metadata, %s[k].Name) && !haskey(client.cachedPartitionsResults, %s[k].Name)" % (n, last(m), stored, T, T)
def present(n, m): return "forall k :: 0 <= k && k < %s && %s && %s ==> haskey(client.metadata, %s[k].Name) && haskey(client.cachedPartitionsResults, %s[k].Name)" % (n, last(m), stored, T, T)
def listed(n, m): return "forall k, j :: 0 <= k && k < %s && %s && %s && 0 <= j && j < len(%s[k].Partitions) ==> haskey(client.metadata[%s[k].Name], %s[k].Partitions[j].ID)" % (n, last(m), stored, T, T, T)
def only(n, m): return "forall k int, p int32 :: 0 <= k && k < %s && %s && %s && haskey(client.metadata[%s[k].Name], p) ==> exists j :: 0 <= j && j < len(%s[k].Partitions) && %s[k].Partitions[j].ID == p && client.metadata[%s[k].Name][p] == %s[k].Partitions[j]" % (n, last(m), stored, T, T, T, T, T)
def full(n, m): return "allKnownMetaData ==> forall t string :: haskey(client.metadata, t) ==> exists k :: 0 <= k && k < %s && %s[k].Name == t" % (m, T)
def partial(n, m): return "!allKnownMetaData ==> forall t string :: (forall k :: 0 <= k && k < %s ==> %s[k].Name != t) ==> haskey(client.metadata, t) == acq(haskey(client.metadata, t)) && client.metadata[t] == acq(client.metadata[t]) && haskey(client.cachedPartitionsResults, t) == acq(haskey(client.cachedPartitionsResults, t))" % (m, T)
def err_some(n, m): return "err != nil ==> exists k :: 0 <= k && k < %s && !%s && err == %s[k].Err" % (n, stored, T)
def err_nil(n, m): return "err == nil ==> forall k :: 0 <= k && k < %s ==> %s" % (n, stored)
def retry_cause(n, m): return "retry ==> exists k :: 0 <= k && k < %s && %s" % (n, cause)
def retry_class(n, m): return "forall k :: 0 <= k && k < %s && (%s[k].Err == ErrUnknownTopicOrPartition || %s[k].Err == ErrLeaderNotAvailable) ==> retry" % (n, T, T)
def retry_part(n, m): return "forall k, j :: 0 <= k && k < %s && %s[k].Err == ErrNoError && 0 <= j && j < len(%s[k].Partitions) && %s[k].Partitions[j].Err == ErrLeaderNotAvailable ==> retry" % (n, T, T, T)

# (label, generator, families whose hypotheses the proof also needs)
FAM = [
    ("topics_tracked", tracked, []),
    ("error_topics_forgotten", forgotten, []),
    ("stored_topics_present", present, ["cur_topic"]),
    ("stored_partitions_listed", listed, ["cur_listed", "cur_topic", "keyed"]),
    ("stored_partitions_only", only, ["cur_only", "cur_topic", "keyed"]),
    ("full_refresh_forgets_unlisted", full, ["cur_topic"]),
    ("partial_refresh_keeps_unlisted", partial, ["cur_topic"]),
    ("err_is_a_topic_error", err_some, []),
    ("err_nil_means_no_topic_error", err_nil, ["cur_topic"]),
    ("retry_has_cause", retry_cause, ["retry_cause_cur", "cur_topic"]),
    ("retry_on_topic_class", retry_class, ["cur_topic"]),
    ("retry_on_leaderless_partition", retry_part, ["cur_retry", "cur_topic"]),
]
BRK = [
    ("brokers_listed_known", "forall k :: 0 <= k && k < len(data.Brokers) ==> client.brokers[data.Brokers[k].id] != nil"),
    ("brokers_address_current", "forall id int32 :: haskey(client.brokers, id) ==> exists k :: 0 <= k && k < len(data.Brokers) && data.Brokers[k].id == id && client.brokers[id] != nil && client.brokers[id].addr == data.Brokers[k].addr"),
    ("brokers_absent_dropped", "forall id int32 :: haskey(client.brokers, id) ==> exists k :: 0 <= k && k < len(data.Brokers) && data.Brokers[k].id == id"),
]
MON = ["cached_has_metadata", "all_sorted", "all_only_known", "all_complete", "writable_sorted",
       "writable_only_available", "writable_complete"]
KEYED = "forall t string, p int32 :: haskey(client.metadata, t) ==> client.metadata[t] != nil && allocated(client.metadata[t]) && (haskey(client.metadata[t], p) ==> client.metadata[t][p] != nil && client.metadata[t][p].ID == p)"

def lab(l, uses): return "[" + " ".join([l] + ["+" + u for u in uses]) + "]"

out = [BEGIN]
out.append('''// A-close: the client is not closed between the Closed() test and the critical section (Close racing with a refresh
// would make updateBroker write to a nil map; outside the property).
// "last occurrence": a response may name a topic twice; the later entry wins, so the per-topic clauses speak about
// entries that no later entry of the same name follows.
//@ func (client *client) updateMetadata(data, allKnownMetaData) props C15
//@   returns retry, err
//@   requires data != nil
//@   requires forall k :: 0 <= k && k < len(data.Brokers) ==> data.Brokers[k] != nil
//@   requires forall k :: 0 <= k && k < len(data.Topics) ==> data.Topics[k] != nil
//@   requires forall k, j :: 0 <= k && k < len(data.Topics) && 0 <= j && j < len(data.Topics[k].Partitions) ==> data.Topics[k].Partitions[j] != nil
//@   assume_acq client.brokers != nil
//@   ensures[controller] acquired() ==> client.controllerID == data.ControllerID
''')
N = "len(data.Topics)"
for l, f, u in FAM:
    out.append("//@   ensures%s acquired() ==> (%s)\n" % (lab(l, []), f(N, N)))
for l, e in BRK:
    out.append("//@   ensures[%s] acquired() ==> (%s)\n" % (l, e))
out.append("//@   loopname topics: range data.Topics\n//@   loopname partitions: range topic.Partitions\n")
out.append("//@   loop topics: invariant client.metadata != nil && client.metadataTopics != nil && client.cachedPartitionsResults != nil\n")
out.append("//@   loop topics: invariant[keyed] %s\n" % KEYED)
for l, f, u in FAM:
    out.append("//@   loop topics: invariant%s %s\n" % (lab(l, u), f("$i", "$i")))
for m in MON:
    out.append("//@   loop topics: invariant lockinv(client.lock, %s)\n" % m)
for l, e in BRK:
    out.append("//@   loop topics: invariant[%s] %s\n" % (l, e))
out.append("//@   loop partitions: invariant client.metadata != nil && client.metadata[topic.Name] != nil && haskey(client.metadata, topic.Name)\n")
out.append("//@   loop partitions: invariant !haskey(client.cachedPartitionsResults, topic.Name)\n")
out.append("//@   loop partitions: invariant[keyed] %s\n" % KEYED)
out.append("//@   loop partitions: invariant[cur_topic] 0 <= $i_topics && $i_topics < len(data.Topics) && topic == data.Topics[$i_topics] && (topic.Err == ErrNoError || topic.Err == ErrLeaderNotAvailable) && haskey(client.metadataTopics, topic.Name) && (topic.Err == ErrLeaderNotAvailable ==> retry)\n")
out.append("//@   loop partitions: invariant[cur_listed] forall j :: 0 <= j && j < $i ==> haskey(client.metadata[topic.Name], topic.Partitions[j].ID)\n")
out.append("//@   loop partitions: invariant[cur_only] forall p int32 :: haskey(client.metadata[topic.Name], p) ==> exists j :: 0 <= j && j < $i && topic.Partitions[j].ID == p && client.metadata[topic.Name][p] == topic.Partitions[j]\n")
out.append("//@   loop partitions: invariant[cur_retry] forall j :: 0 <= j && j < $i && topic.Partitions[j].Err == ErrLeaderNotAvailable ==> retry\n")
out.append("//@   loop partitions: invariant[retry_cause_cur] retry ==> (exists k :: 0 <= k && k < $i_topics && %s) || topic.Err == ErrLeaderNotAvailable || exists j :: 0 <= j && j < $i && topic.Partitions[j].Err == ErrLeaderNotAvailable\n" % cause)
for l, f, u in FAM:
    if l == "retry_has_cause":
        continue
    out.append("//@   loop partitions: invariant%s %s\n" % (lab(l, ["cur_topic", "keyed"]), f("$i_topics", "$i_topics + 1")))
for m in MON:
    out.append("//@   loop partitions: invariant lockinv(client.lock, %s)\n" % m)
for l, e in BRK:
    out.append("//@   loop partitions: invariant[%s] %s\n" % (l, e))
out.append(END)
text = "".join(out)

s = open(PATH).read()
if BEGIN in s:
    a = s.index(BEGIN)
    b = s.index(END) + len(END)
    s = s[:a] + text + s[b:]
else:
    # first run: replace the hand-written block (from its leading comment to the end of the file section)
    a = s.index("// A-close: the client is not closed between")
    b = s.index("\n\n", s.index("//@ func (client *client) updateMetadata(data, allKnownMetaData) props C15"))
    s = s[:a] + text + s[b + 1:] if b > 0 else s[:a] + text
open(PATH, 'w').write(s)
print("updateMetadata contract regenerated:", len(out), "lines")
