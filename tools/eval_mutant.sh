#!/bin/bash
# usage: eval_mutant.sh <mutant-dir> <property-id> [more property ids...]
# Confirms a seeded change in a scratch worktree (compiles, existing suite passes, demo fails with it and
# passes without it), then applies it to /repo, runs the checks and reverts.
export GOFLAGS=-mod=mod GOPROXY=off GOSUMDB=off GOTOOLCHAIN=local
M=$1; shift
WT=/var/tmp/verif-eval-$$
if [ -z "$CHECK_ONLY" ]; then
git -C /repo worktree add -q $WT HEAD || exit 2
cleanup() { git -C /repo worktree remove --force $WT >/dev/null 2>&1; rm -rf $WT; }
trap cleanup EXIT
PKGDIR=.
if head -20 $M/demo_test.go | grep -q "^package mocks"; then PKGDIR=./mocks; fi
cp $M/demo_test.go $WT/$PKGDIR/zz_demo_test.go
RUN=$(grep -oE "^func (Test[A-Za-z0-9_]+)" $M/demo_test.go | sed "s/func //" | paste -sd"|")
RUN="^(${RUN})\$"
echo "== demo on clean tree"
(cd $WT && go test -vet=off -count=1 -timeout 120s -run "$RUN" $PKGDIR 2>&1 | tail -3)
CLEAN=${PIPESTATUS[0]}
(cd $WT && git apply $M/patch.diff) || { echo "PATCH DOES NOT APPLY"; exit 3; }
echo "== build with mutant"; (cd $WT && go build ./... ) || { echo "DOES NOT COMPILE"; exit 3; }
echo "== demo with mutant"
(cd $WT && go test -vet=off -count=1 -timeout 120s -run "$RUN" $PKGDIR 2>&1 | tail -3)
rm -f $WT/$PKGDIR/zz_demo_test.go
if [ -z "$SKIP_SUITE" ]; then
echo "== existing suite with mutant"
(cd $WT && go test -vet=off -count=1 . ./mocks/ 2>&1 | tail -3)
fi
cleanup; trap - EXIT
fi
[ -n "$CONFIRM_ONLY" ] && exit 0
if [ -n "$(git -C /repo status --porcelain)" ]; then echo "REFUSING: /repo has uncommitted changes"; exit 4; fi
echo "== checks with mutant applied to /repo"
git -C /repo apply $M/patch.diff || exit 3
for P in "$@"; do
  /verif/bin/check $P --tier quick > /tmp/eval_$P.out 2>&1; echo "check $P exit=$?"; grep -E "^VIOLATION" /tmp/eval_$P.out | cut -c1-220 | head -5
done
git -C /repo checkout -- .
git -C /repo status --short | head -3
