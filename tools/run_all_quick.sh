#!/bin/bash
# usage: run_all_quick.sh [tier]   - runs every claimed check (3 at a time), prints one line per property
TIER=${1:-quick}
IDS=$(jq -r '.checks[].property_id' /verif/MANIFEST.json 2>/dev/null)
[ -z "$IDS" ] && IDS="C01 C03 C04 C05 C06 C07 C08 C09 C10 C11 C13 C14 C15 C16 C17 C18 C19 C20"
mkdir -p /var/tmp/verif-all
echo $IDS | tr ' ' '\n' | xargs -P 3 -I{} sh -c "/verif/bin/check {} --tier $TIER > /var/tmp/verif-all/{}.log 2>&1; echo {} exit=\$? \$(tail -1 /var/tmp/verif-all/{}.log | cut -c1-220)"
