package sarama

// BOUNDED STAND-IN (not a proof) for the sticky balance strategy, properties C08 and C13.
//
// stickyBalanceStrategy.Plan and its helpers (about 600 lines: heaps, nested maps, movement tracking, a
// reassignment loop with a score-based revert) are outside what the contract verifier can decide. This file
// enumerates ALL group shapes within the bound printed below and runs the REAL strategy code on each, including
// chains of two rebalances that feed the first plan (and stale or conflicting variants of it) back as member
// user data. It is injected into the package with `go test -overlay` by /verif/bin/check (nothing is written to
// /repo). A failure is reported with the concrete input that fails.
//
// Bound (quick):    members <= 3, topics <= 2, partitions per topic <= 3, every non-empty subscription subset, each shape 3 times
// Bound (thorough): members <= 4, topics <= 2, partitions per topic <= 4, each shape 8 times
// (the strategy ranges over Go maps, so its result may depend on the randomised iteration order: hence the repetitions)
// (selected by the environment variable VERIF_TIER)

import (
	"fmt"
	"os"
	"sort"
	"strings"
	"testing"
)

type vbShape struct {
	subs   [][]string         // per member: subscribed topics
	topics map[string][]int32 // partitions per topic
}

func (s vbShape) String() string {
	var sb strings.Builder
	for i, t := range s.subs {
		fmt.Fprintf(&sb, "m%d:%v ", i, t)
	}
	var names []string
	for t := range s.topics {
		names = append(names, t)
	}
	sort.Strings(names)
	for _, t := range names {
		fmt.Fprintf(&sb, "%s:%v ", t, s.topics[t])
	}
	return sb.String()
}

func vbMemberID(i int) string { return fmt.Sprintf("m%d", i) }

// vbValid checks property C08 for one plan: every partition of every subscribed topic is assigned exactly once,
// to a known member subscribed to the topic; no unknown member, no nonexistent partition.
func vbValid(sh vbShape, plan BalanceStrategyPlan) error {
	subscribed := map[string]map[string]bool{}
	for i, ts := range sh.subs {
		subscribed[vbMemberID(i)] = map[string]bool{}
		for _, t := range ts {
			subscribed[vbMemberID(i)][t] = true
		}
	}
	seen := map[string]int{}
	for member, byTopic := range plan {
		if _, ok := subscribed[member]; !ok {
			return fmt.Errorf("unknown member %q in plan", member)
		}
		for topic, parts := range byTopic {
			if !subscribed[member][topic] && len(parts) > 0 {
				return fmt.Errorf("member %s got %s%v without being subscribed", member, topic, parts)
			}
			for _, p := range parts {
				exists := false
				for _, q := range sh.topics[topic] {
					if q == p {
						exists = true
					}
				}
				if !exists {
					return fmt.Errorf("nonexistent partition %s/%d in plan", topic, p)
				}
				seen[fmt.Sprintf("%s/%d", topic, p)]++
			}
		}
	}
	for topic, parts := range sh.topics {
		anySub := false
		for _, m := range subscribed {
			if m[topic] {
				anySub = true
			}
		}
		for _, p := range parts {
			n := seen[fmt.Sprintf("%s/%d", topic, p)]
			if anySub && n != 1 {
				return fmt.Errorf("partition %s/%d assigned %d times", topic, p, n)
			}
			if !anySub && n != 0 {
				return fmt.Errorf("partition %s/%d of a topic nobody subscribes to was assigned", topic, p)
			}
		}
	}
	return nil
}

func vbCount(plan BalanceStrategyPlan, member string) int {
	n := 0
	for _, parts := range plan[member] {
		n += len(parts)
	}
	return n
}

// vbBalanced checks Kafka's balance criterion (C13): no member holds two or more partitions more than another
// member while holding a partition that the other member could take.
func vbBalanced(sh vbShape, plan BalanceStrategyPlan) error {
	for i := range sh.subs {
		for j, subsJ := range sh.subs {
			if i == j {
				continue
			}
			a, b := vbMemberID(i), vbMemberID(j)
			if vbCount(plan, a) < vbCount(plan, b)+2 {
				continue
			}
			for topic, parts := range plan[a] {
				if len(parts) == 0 {
					continue
				}
				for _, t := range subsJ {
					if t == topic {
						return fmt.Errorf("%s holds %d and %s holds %d, yet %s holds %s%v which %s could take",
							a, vbCount(plan, a), b, vbCount(plan, b), a, topic, parts, b)
					}
				}
			}
		}
	}
	return nil
}

// vbNoSwap: between two consecutive plans no two members exchange partitions of one topic (a -> b and b -> a).
func vbNoSwap(prev, next BalanceStrategyPlan) error {
	owner := func(plan BalanceStrategyPlan) map[string]map[int32]string {
		o := map[string]map[int32]string{}
		for id, byTopic := range plan {
			for topic, parts := range byTopic {
				if o[topic] == nil {
					o[topic] = map[int32]string{}
				}
				for _, p := range parts {
					o[topic][p] = id
				}
			}
		}
		return o
	}
	before, after := owner(prev), owner(next)
	for topic, parts := range before {
		moved := map[[2]string][]int32{}
		for p, a := range parts {
			if b, ok := after[topic][p]; ok && b != a {
				moved[[2]string{a, b}] = append(moved[[2]string{a, b}], p)
			}
		}
		for k, ps := range moved {
			if qs, ok := moved[[2]string{k[1], k[0]}]; ok {
				return fmt.Errorf("topic %s: partitions %v moved %s -> %s while partitions %v moved %s -> %s", topic, ps, k[0], k[1], qs, k[1], k[0])
			}
		}
	}
	return nil
}

func vbPlanKey(plan BalanceStrategyPlan) string {
	var out []string
	for m, byTopic := range plan {
		for t, parts := range byTopic {
			ps := append([]int32{}, parts...)
			sort.Slice(ps, func(i, j int) bool { return ps[i] < ps[j] })
			if len(ps) > 0 {
				out = append(out, fmt.Sprintf("%s:%s%v", m, t, ps))
			}
		}
	}
	sort.Strings(out)
	return strings.Join(out, " ")
}

func vbMembers(sh vbShape, prev BalanceStrategyPlan, gen int32, t *testing.T) map[string]ConsumerGroupMemberMetadata {
	members := map[string]ConsumerGroupMemberMetadata{}
	for i, ts := range sh.subs {
		id := vbMemberID(i)
		meta := ConsumerGroupMemberMetadata{Topics: ts}
		if prev != nil {
			if owned, ok := prev[id]; ok {
				data, err := BalanceStrategySticky.AssignmentData(id, owned, gen)
				if err != nil {
					t.Fatal(err)
				}
				meta.UserData = data
			}
		}
		members[id] = meta
	}
	return members
}

func vbSubsets(topics []string) [][]string {
	var out [][]string
	for mask := 1; mask < 1<<len(topics); mask++ {
		var s []string
		for k, t := range topics {
			if mask&(1<<k) != 0 {
				s = append(s, t)
			}
		}
		out = append(out, s)
	}
	return out
}

func TestVerifBoundedSticky(t *testing.T) {
	maxMembers, maxParts, reps := 3, 4, 3
	if os.Getenv("VERIF_TIER") == "thorough" {
		maxMembers, maxParts, reps = 4, 4, 8
	}
	topicNames := []string{"ta", "tb"}
	subsets := vbSubsets(topicNames)
	cases, failures := 0, 0
	fail := func(prop, what string, sh vbShape, err error) {
		failures++
		if failures <= 5 {
			fmt.Printf("BOUNDED-FAIL property=%s check=%q input=%q error=%q\n", prop, what, sh.String(), err.Error())
		}
	}
	var rec func(m int, subs [][]string, f func([][]string))
	rec = func(m int, subs [][]string, f func([][]string)) {
		if m == 0 {
			f(subs)
			return
		}
		for _, s := range subsets {
			rec(m-1, append(append([][]string{}, subs...), s), f)
		}
	}
	for nm := 1; nm <= maxMembers; nm++ {
		for pa := 0; pa <= maxParts; pa++ {
			for pb := 0; pb <= maxParts; pb++ {
				topics := map[string][]int32{}
				for p := 0; p < pa; p++ {
					topics["ta"] = append(topics["ta"], int32(p))
				}
				for p := 0; p < pb; p++ {
					topics["tb"] = append(topics["tb"], int32(p))
				}
				rec(nm, nil, func(subs [][]string) {
					// the strategy iterates over Go maps, whose order changes from call to call: every shape is run several times
					for rep := 0; rep < reps; rep++ {
						vbRunShape(t, subs, topics, &cases, fail)
					}
				})
			}
		}
	}
	fmt.Printf("BOUNDED cases=%d failures=%d bound=members<=%d,topics<=2,partitions<=%d,repetitions=%d\n", cases, failures, maxMembers, maxParts, reps)
	if failures > 0 {
		t.Fail()
	}
}

func vbRunShape(t *testing.T, subs [][]string, topics map[string][]int32, casesp *int, fail func(prop, what string, sh vbShape, err error)) {
	{
		{
			{
				func(subs [][]string) {
					cases := 0
					defer func() { *casesp += cases }()
					// the consumer group hands Plan the topics some member subscribes to
					used := map[string][]int32{}
					for _, ts := range subs {
						for _, tn := range ts {
							used[tn] = topics[tn]
						}
					}
					sh := vbShape{subs: subs, topics: used}
					cases++
					// round 1: no previous state
					plan1, err := BalanceStrategySticky.Plan(vbMembers(sh, nil, 0, t), sh.topics)
					if err != nil {
						fail("C08", "plan (fresh)", sh, err)
						return
					}
					if err := vbValid(sh, plan1); err != nil {
						fail("C08", "valid (fresh)", sh, err)
					}
					if err := vbBalanced(sh, plan1); err != nil {
						fail("C13", "balanced (fresh)", sh, err)
					}
					// round 2: unchanged group, previous plan fed back: the plan must not change (stickiness)
					plan2, err := BalanceStrategySticky.Plan(vbMembers(sh, plan1, 1, t), sh.topics)
					if err != nil {
						fail("C08", "plan (replan)", sh, err)
						return
					}
					if err := vbValid(sh, plan2); err != nil {
						fail("C08", "valid (replan)", sh, err)
					}
					if vbPlanKey(plan1) != vbPlanKey(plan2) {
						fail("C13", "sticky: unchanged group keeps its plan", sh, fmt.Errorf("%s -> %s", vbPlanKey(plan1), vbPlanKey(plan2)))
					}
					// round 3: the last member leaves; stale user data of the others is fed back. With identical
					// subscriptions the remaining members keep everything they had.
					if len(subs) > 1 {
						sh3 := vbShape{subs: subs[:len(subs)-1], topics: map[string][]int32{}}
						for _, ts := range sh3.subs {
							for _, tn := range ts {
								sh3.topics[tn] = topics[tn]
							}
						}
						plan3, err := BalanceStrategySticky.Plan(vbMembers(sh3, plan2, 2, t), sh3.topics)
						if err != nil {
							fail("C08", "plan (member left)", sh3, err)
							return
						}
						if err := vbValid(sh3, plan3); err != nil {
							fail("C08", "valid (member left, stale user data)", sh3, err)
						}
						if err := vbBalanced(sh3, plan3); err != nil {
							fail("C13", "balanced (member left)", sh3, err)
						}
						if err := vbNoSwap(plan2, plan3); err != nil {
							fail("C13", "sticky: no pairwise swap within a topic (member left)", sh3, fmt.Errorf("%v: %s -> %s", err, vbPlanKey(plan2), vbPlanKey(plan3)))
						}
						identical := true
						for _, ts := range subs {
							if strings.Join(ts, ",") != strings.Join(subs[0], ",") {
								identical = false
							}
						}
						if identical {
							for i := range sh3.subs {
								id := vbMemberID(i)
								for topic, parts := range plan2[id] {
									for _, p := range parts {
										kept := false
										for _, q := range plan3[id][topic] {
											if q == p {
												kept = true
											}
										}
										if !kept {
											fail("C13", "sticky: a member leaving moves nothing between the others", sh,
												fmt.Errorf("%s lost %s/%d: %s -> %s", id, topic, p, vbPlanKey(plan2), vbPlanKey(plan3)))
										}
									}
								}
							}
						}
					}
					// round 3b: every topic loses its last partition; the previous plan (now naming partitions that no
					// longer exist) is fed back as user data
					{
						sh5 := vbShape{subs: subs, topics: map[string][]int32{}}
						shrunk := false
						for tn, parts := range sh.topics {
							if len(parts) > 0 {
								sh5.topics[tn] = parts[:len(parts)-1]
								shrunk = true
							} else {
								sh5.topics[tn] = parts
							}
						}
						if shrunk {
							plan5, err := BalanceStrategySticky.Plan(vbMembers(sh5, plan2, 2, t), sh5.topics)
							if err != nil {
								fail("C08", "plan (partitions removed)", sh5, err)
								return
							}
							if err := vbValid(sh5, plan5); err != nil {
								fail("C08", "valid (partitions removed, stale user data)", sh5, err)
							}
							if err := vbBalanced(sh5, plan5); err != nil {
								fail("C13", "balanced (partitions removed)", sh5, err)
							}
							if err := vbNoSwap(plan2, plan5); err != nil {
								fail("C13", "sticky: no pairwise swap within a topic (partitions removed)", sh5, fmt.Errorf("%v: %s -> %s", err, vbPlanKey(plan2), vbPlanKey(plan5)))
							}
						}
					}
					// round 3c: the first member drops its first topic (when it has two); the previous plan is fed back
					if len(subs[0]) > 1 {
						subs6 := append([][]string{subs[0][1:]}, subs[1:]...)
						sh6 := vbShape{subs: subs6, topics: map[string][]int32{}}
						for _, ts := range subs6 {
							for _, tn := range ts {
								sh6.topics[tn] = topics[tn]
							}
						}
						plan6, err := BalanceStrategySticky.Plan(vbMembers(sh6, plan2, 2, t), sh6.topics)
						if err != nil {
							fail("C08", "plan (subscription dropped)", sh6, err)
							return
						}
						if err := vbValid(sh6, plan6); err != nil {
							fail("C08", "valid (subscription dropped, stale user data)", sh6, err)
						}
						if err := vbNoSwap(plan2, plan6); err != nil {
							fail("C13", "sticky: no pairwise swap within a topic (subscription dropped)", sh6, fmt.Errorf("%v: %s -> %s", err, vbPlanKey(plan2), vbPlanKey(plan6)))
						}
					}
					// round 3d: the last member joins a group formed by the others: plan for the others first, feed that
					// plan back, then plan for everybody. The result must be valid and balanced, and with identical
					// subscriptions nothing moves between the old members.
					if len(subs) > 1 {
						old := vbShape{subs: subs[:len(subs)-1], topics: map[string][]int32{}}
						for _, ts := range old.subs {
							for _, tn := range ts {
								old.topics[tn] = topics[tn]
							}
						}
						planOld, err := BalanceStrategySticky.Plan(vbMembers(old, nil, 0, t), old.topics)
						if err != nil {
							fail("C08", "plan (before join)", old, err)
							return
						}
						planJoin, err := BalanceStrategySticky.Plan(vbMembers(sh, planOld, 1, t), sh.topics)
						if err != nil {
							fail("C08", "plan (member joined)", sh, err)
							return
						}
						if err := vbValid(sh, planJoin); err != nil {
							fail("C08", "valid (member joined)", sh, err)
						}
						if err := vbBalanced(sh, planJoin); err != nil {
							fail("C13", "balanced (member joined)", sh, err)
						}
						if err := vbNoSwap(planOld, planJoin); err != nil {
							fail("C13", "sticky: no pairwise swap within a topic (member joined)", sh, fmt.Errorf("%v: %s -> %s", err, vbPlanKey(planOld), vbPlanKey(planJoin)))
						}
						identical := true
						for _, ts := range subs {
							if strings.Join(ts, ",") != strings.Join(subs[0], ",") {
								identical = false
							}
						}
						if identical {
							for i := range old.subs {
								id := vbMemberID(i)
								for topic, parts := range planJoin[id] {
									for _, p := range parts {
										had := false
										for _, q := range planOld[id][topic] {
											if q == p {
												had = true
											}
										}
										if !had {
											fail("C13", "sticky: a member joining moves nothing between the old members", sh,
												fmt.Errorf("%s gained %s/%d: %s -> %s", id, topic, p, vbPlanKey(planOld), vbPlanKey(planJoin)))
										}
									}
								}
							}
						}
					}
					// round 3e: an arbitrary (skewed, possibly unbalanced) previous assignment, as other members or an older
					// generation may report it: per topic the first half of the partitions belongs to the topic's first
					// subscriber, the rest to its last subscriber; in the second pattern the first partition of every topic
					// has no owner; the last member of the group reports nothing (it is new). The plan must be valid and must
					// not swap partitions of a topic between two members.
					for pattern := 0; pattern < 2 && len(subs) > 1; pattern++ {
						prev := BalanceStrategyPlan{}
						for tn, parts := range sh.topics {
							var subscribers []string
							for i, ts := range subs[:len(subs)-1] {
								for _, x := range ts {
									if x == tn {
										subscribers = append(subscribers, vbMemberID(i))
									}
								}
							}
							if len(subscribers) == 0 {
								continue
							}
							for j, pnum := range parts {
								if pattern == 1 && j == 0 {
									continue
								}
								who := subscribers[0]
								if j >= len(parts)/2 {
									who = subscribers[len(subscribers)-1]
								}
								prev.Add(who, tn, pnum)
							}
						}
						planS, err := BalanceStrategySticky.Plan(vbMembers(sh, prev, 3, t), sh.topics)
						if err != nil {
							fail("C08", "plan (skewed previous assignment)", sh, err)
							return
						}
						if err := vbValid(sh, planS); err != nil {
							fail("C08", "valid (skewed previous assignment)", sh, err)
						}
						if err := vbNoSwap(prev, planS); err != nil {
							fail("C13", "sticky: no pairwise swap within a topic (skewed previous assignment)", sh, fmt.Errorf("%v: %s -> %s", err, vbPlanKey(prev), vbPlanKey(planS)))
						}
					}
					// round 4: conflicting user data (every member claims the whole first plan, same generation)
					members := vbMembers(sh, nil, 0, t)
					all := map[string][]int32{}
					for _, byTopic := range plan1 {
						for topic, parts := range byTopic {
							all[topic] = append(all[topic], parts...)
						}
					}
					for id, meta := range members {
						data, err := BalanceStrategySticky.AssignmentData(id, all, 3)
						if err != nil {
							t.Fatal(err)
						}
						meta.UserData = data
						members[id] = meta
					}
					plan4, err := BalanceStrategySticky.Plan(members, sh.topics)
					if err != nil {
						fail("C08", "plan (conflicting user data)", sh, err)
						return
					}
					if err := vbValid(sh, plan4); err != nil {
						fail("C08", "valid (conflicting user data)", sh, err)
					}
				}(subs)
			}
		}
	}
}
