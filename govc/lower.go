package main

import (
	"fmt"
	"go/ast"
	"go/constant"
	"go/token"
	"go/types"
	"math/big"
	"strings"
)

// envEntry binds a spec-level name to a term.
type envEntry struct {
	t   *Term
	typ types.Type
}

type deferred struct {
	guard string // bool var: the defer statement was executed
	call  *ast.CallExpr
	args  []*Term // evaluated at defer time (nil for literal closures)
	recv  *Term
}

// frame is one function activation being lowered (top-level or inlined).
type frame struct {
	fi         *FuncInfo
	prefix     string
	objVar     map[types.Object]string
	results    []string
	resTypes   []types.Type
	retBlock   *Block
	defers     []*deferred
	parent     *frame
	depth      int
	loopOrd    int
	rangeSeen  map[string]int // loops over the same ranged expression seen so far (loopname expr#k)
	contract   *Contract
	deferGuard map[*ast.DeferStmt]string
	concrete   map[types.Object]types.Type // interface parameters known to hold a concrete type (inlined calls)
}

type targets struct {
	brk, cont *Block
	label     string
	prev      *targets
	loop      bool
}

type Lowerer struct {
	p                *Prog
	f                *FuncIVL
	cur              *Block // nil = unreachable
	fr               *frame
	tg               *targets
	labels           map[string]*Block
	tmpN             int
	inlN             int
	obOrd            map[string]int
	spec             bool                // translating a spec expression (no obligations emitted)
	oldRename        func(string) string // non-nil while inside old(...)
	env              []map[string]envEntry
	guard            []*Term // path guard inside short-circuit value expressions
	fnKey            string
	curProps         []string
	noSafety         bool
	escaped          map[string]bool // locals captured and assigned by escaping closures
	escapedHeap      map[string]bool
	callSnap         int
	quantN           int
	inlineStack      []string
	held             map[string]bool
	oldFn            func(string) string // what old(...) means in the clause being translated
	decoderRemaining func() *Term
	labelSeen        map[string]bool
	mapsHavocked     bool
	pendingFrame     func()
	assumedIn        *Block
	assumed          map[string]bool
	afterCall        []func()
	acqPoints        []acqPoint
	lastResults      []*Term // results of the call whose call-site effects are being applied
	lastResultTypes  []types.Type
	rangeStack       []*ast.RangeStmt // enclosing range statements
	pendingRangeKey  string         // source text of the expression ranged over by the loop being opened
	nilMapFact       map[string]int // block:var -> statement count when the nil-map fact was last stated
	itPoints         []acqPoint
	chanLenTracked   bool // the function reads len(ch) of a channel: track it as a pseudo field (A-chanlen)
	initializing     map[string]bool // objects being constructed (composite literal): not yet shared
	topEnv           map[string]envEntry
	topChain         []*Contract
	topEnss          []*Clause
	topCt            *Contract
	siteOrd          map[string]int
	backLabels       map[string]bool
	gotoLoops        map[string]*gotoLoop
	specPos          token.Pos // when set, spec identifiers resolve in the scope at this source position
}

type acqPoint struct {
	b   *Block
	idx int
}

func (l *Lowerer) info() *types.Info { return l.fr.fi.Pkg.TypesInfo }

func (l *Lowerer) pos(n ast.Node) string {
	if n == nil || !n.Pos().IsValid() {
		return ""
	}
	ps := l.p.fset.Position(n.Pos())
	fn := ps.Filename
	if i := strings.LastIndex(fn, "/repo/"); i >= 0 {
		fn = fn[i+6:]
	}
	return fmt.Sprintf("%s:%d", fn, ps.Line)
}

func (l *Lowerer) exprText(e ast.Node) string {
	if e == nil {
		return ""
	}
	start := l.p.fset.Position(e.Pos())
	end := l.p.fset.Position(e.End())
	if !start.IsValid() || start.Filename == "" {
		return fmt.Sprint(e)
	}
	src := l.p.fileSrc(start.Filename)
	if src == nil || end.Offset > len(src) || start.Offset > end.Offset {
		return ""
	}
	s := string(src[start.Offset:end.Offset])
	s = strings.Join(strings.Fields(s), " ")
	if len(s) > 120 {
		s = s[:117] + "..."
	}
	return s
}

// ---------------------------------------------------------------------------
// emission helpers

func (l *Lowerer) emit(s *Stmt) {
	if l.cur == nil {
		return
	}
	if s.Kind == SAssume {
		// drop verbatim repetitions of a fact within a straight-line stretch
		key := s.E.String()
		if l.assumedIn != l.cur || l.assumed == nil {
			l.assumedIn, l.assumed = l.cur, map[string]bool{}
		}
		if l.assumed[key] {
			return
		}
		l.assumed[key] = true
	} else if s.Kind != SAssert {
		l.assumed = nil
	}
	l.cur.Stmts = append(l.cur.Stmts, s)
}

func (l *Lowerer) assume(t *Term) {
	if t == nil || isLit(t, "true") {
		return
	}
	if len(l.guard) > 0 {
		t = Implies(And(l.guard...), t)
	}
	l.emit(&Stmt{Kind: SAssume, E: t})
}

func (l *Lowerer) assign(v string, sort string, e *Term) {
	if e.Sort != sort {
		panic(fmt.Sprintf("assign %s: sort %s, term %s has sort %s", v, sort, e.String(), e.Sort))
	}
	l.f.declare(v, sort)
	l.emit(&Stmt{Kind: SAssign, Var: v, Sort: sort, E: e})
}

func (l *Lowerer) havoc(v string, sort string) {
	l.f.declare(v, sort)
	l.emit(&Stmt{Kind: SHavoc, Var: v, Sort: sort})
}

func (l *Lowerer) tmp(sort string) string {
	l.tmpN++
	n := fmt.Sprintf("$t%d", l.tmpN)
	l.f.declare(n, sort)
	return n
}

// freshVal returns a havocked temporary of the given type, with well-formedness assumed.
func (l *Lowerer) freshVal(t types.Type) *Term {
	s := l.p.sortOf(t)
	n := l.tmp(s)
	l.havoc(n, s)
	v := V(n, s)
	l.wf(v, t)
	return v
}

// obligation (automatic safety or contract clause)
func (l *Lowerer) assertOb(kind, label, descr string, node ast.Node, t *Term, props []string) {
	if l.spec {
		return
	}
	if l.cur == nil {
		return
	}
	if len(l.guard) > 0 {
		t = Implies(And(l.guard...), t)
	}
	key := kind
	if label != "" {
		key += "/" + label
	}
	ord := l.obOrd[key]
	l.obOrd[key] = ord + 1
	name := l.fnKey + "/" + key
	if label == "" || ord > 0 {
		name += fmt.Sprintf("#%d", ord)
	}
	if props == nil {
		props = l.curProps
	}
	ob := &Oblig{Name: name, Kind: kind, Func: l.fnKey, Label: label, Descr: descr, Pos: l.pos(node), Props: props}
	l.f.Obligs = append(l.f.Obligs, ob)
	l.emit(&Stmt{Kind: SAssert, E: t, Ob: ob})
}

func (l *Lowerer) safety(kind, descr string, node ast.Node, t *Term) {
	if l.noSafety || l.spec {
		return
	}
	l.assertOb(kind, "", descr, node, t, nil)
}

func (l *Lowerer) unsupported(node ast.Node, what string) {
	msg := fmt.Sprintf("%s: %s", l.pos(node), what)
	l.f.Unsupported = append(l.f.Unsupported, msg)
}

func (l *Lowerer) note(a string) { l.f.Assumptions[a] = true }

// ---------------------------------------------------------------------------
// heap access

func (l *Lowerer) heapVar(name, elemSort string) *Term {
	s := arraySort("Int", elemSort)
	l.f.declare(name, s)
	l.f.HeapVars[name] = true
	n := name
	if l.oldRename != nil {
		n = l.oldRename(name)
		l.f.declare(n, s)
	}
	return V(n, s)
}

func (l *Lowerer) alloc() *Term {
	l.f.declare("$alloc", "Int")
	t := l.tmp("Int")
	l.assign(t, "Int", V("$alloc", "Int"))
	l.assign("$alloc", "Int", Add(V("$alloc", "Int"), IntLit(1)))
	return V(t, "Int")
}

// wf emits well-formedness facts of a freshly read value of Go type t.
func (l *Lowerer) wf(v *Term, t types.Type) {
	if t == nil {
		return
	}
	if isRefLike(types.Unalias(t)) && !l.p.isOpaqueStruct(t) {
		l.f.declare("$alloc", "Int")
	}
	if w := l.p.wfTerm(v, t, l.oldRename == nil); w != nil {
		l.assume(w)
	}
}

// wfTerm: the type facts of a value of Go type t (nil when there are none). withAlloc adds "allocated".
func (p *Prog) wfTerm(v *Term, t types.Type, withAlloc bool) *Term {
	if t == nil {
		return nil
	}
	t = types.Unalias(t)
	if lo, hi, ok := intRange(t); ok {
		return And(App("<=", "Bool", Lit(lo, "Int"), v), App("<=", "Bool", v, Lit(hi, "Int")))
	}
	if p.isOpaqueStruct(t) {
		return nil
	}
	switch u := t.Underlying().(type) {
	case *types.Basic:
		if u.Info()&types.IsString != 0 {
			return And(Le(IntLit(0), App("strlen", "Int", v)), Le(App("strlen", "Int", v), IntPow2(56)))
		}
	case *types.Slice:
		r := p.reg
		// A-arch: no slice is longer than 2^56 elements (the amd64 address space is 2^47 bytes)
		return And(Le(IntLit(0), r.sLen(v)), Le(r.sLen(v), r.sCap(v)), Le(IntLit(0), r.sOff(v)),
			Le(r.sCap(v), IntPow2(56)), Implies(r.sNil(v), Eq(r.sLen(v), IntLit(0))))
	case *types.Interface:
		// interface values: references, boxed values, or negative constants for boxed nil pointers
		if withAlloc {
			return Lt(v, V("$alloc", "Int"))
		}
		return nil
	case *types.Pointer, *types.Map, *types.Chan, *types.Signature:
		if withAlloc {
			return And(Le(IntLit(0), v), Lt(v, V("$alloc", "Int")))
		}
		return Le(IntLit(0), v)
	}
	return nil
}

// structOf returns the struct type behind t (through one pointer), or nil.
func structOf(t types.Type) (*types.Struct, types.Type) {
	t = types.Unalias(t)
	if p, ok := t.Underlying().(*types.Pointer); ok {
		t = types.Unalias(p.Elem())
	}
	if s, ok := t.Underlying().(*types.Struct); ok {
		return s, t
	}
	return nil, nil
}

// place is an assignable location.
type place struct {
	kind  int
	name  string     // pLocal: variable
	ref   *Term      // pHeap: object reference; pMap: map reference; pDeref: pointer
	owner string     // pHeap: struct type name
	path  string     // pHeap: field path
	base  *place     // pIndex / pField: container place
	idx   *Term      // pIndex / pMap: index or key
	field string     // pField
	typ   types.Type // type of the location
	ktyp  types.Type
	mtyp  *types.Map
	term  *Term
}

const (
	pLocal = iota
	pHeap
	pIndex // element of a slice/array held in base
	pField // field of a value struct held in base
	pMap
	pDeref // *p for non-struct pointee
	pBlank
	pTerm // a value (spec expressions only)
)

func (l *Lowerer) fieldHeapName(owner, path string) string { return "F." + owner + "." + path }

func (l *Lowerer) load(pl *place) *Term {
	switch pl.kind {
	case pTerm:
		return pl.term
	case pLocal:
		s := l.p.sortOf(pl.typ)
		l.f.declare(pl.name, s)
		n := pl.name
		if l.oldRename != nil && !strings.HasPrefix(pl.name, "$t") {
			n = l.oldRename(pl.name)
			l.f.declare(n, s)
		}
		return V(n, s)
	case pHeap:
		if st, stt := structOf(pl.typ); st != nil && !l.p.isOpaqueStruct(pl.typ) && !isPointer(pl.typ) {
			// value struct stored flattened
			s := l.p.sortOf(stt)
			var args []*Term
			for i := 0; i < st.NumFields(); i++ {
				f := st.Field(i)
				sub := &place{kind: pHeap, ref: pl.ref, owner: pl.owner, path: joinPath(pl.path, f.Name()), typ: f.Type()}
				args = append(args, l.load(sub))
			}
			if len(args) == 0 {
				args = append(args, IntLit(0))
			}
			return App("mk_"+s, s, args...)
		}
		hv := l.heapVar(l.fieldHeapName(pl.owner, pl.path), l.p.sortOf(pl.typ))
		l.p.heapVarTypes[l.fieldHeapName(pl.owner, pl.path)] = pl.typ
		l.guardedAccess(pl)
		v := Select(hv, pl.ref)
		l.wfLoad(v, pl.typ)
		return v
	case pIndex:
		b := l.load(pl.base)
		if _, ok := pl.base.typ.Underlying().(*types.Array); ok {
			v := Select(b, pl.idx)
			l.wfLoad(v, pl.typ)
			return v
		}
		v := l.p.reg.sIndex(b, pl.idx)
		l.wfLoad(v, pl.typ)
		return v
	case pField:
		b := l.load(pl.base)
		return App(structAccessor(b.Sort, pl.field), l.p.sortOf(pl.typ), b)
	case pMap:
		dom, val, _ := l.mapVars(pl.mtyp)
		v := Ite(Select(Select(dom, pl.ref), pl.idx), Select(Select(val, pl.ref), pl.idx), l.p.zeroOf(pl.typ))
		l.wfLoad(v, pl.typ)
		return v
	case pDeref:
		hv := l.heapVar("F.$deref."+sortIdent(l.p.sortOf(pl.typ)), l.p.sortOf(pl.typ))
		v := Select(hv, pl.ref)
		l.wfLoad(v, pl.typ)
		return v
	}
	panic("load of blank place")
}

// guardedAccess: a field declared `guarded` may only be touched while its lock is held.
func (l *Lowerer) guardedAccess(pl *place) {
	if l.spec || len(l.p.guardedBy) == 0 || l.initializing[pl.ref.String()] {
		return
	}
	first := pl.path
	if i := strings.Index(first, "."); i > 0 {
		first = first[:i]
	}
	for key, fields := range l.p.guardedBy {
		owner := key[:strings.LastIndex(key, ".")]
		if owner != pl.owner {
			continue
		}
		for _, f := range fields {
			if f == first || f == "contents("+first+")" && false {
				lockField := key[strings.LastIndex(key, ".")+1:]
				name := "addr." + owner + "." + lockField
				l.p.reg.Fun(name, []string{"Int"}, "Int")
				held := l.heapVar("F.$lock.held", "Bool")
				l.assertOb("lock-held", owner+"."+f, "access to "+owner+"."+f+" requires "+key, nil,
					Select(held, App(name, "Int", pl.ref)), nil)
			}
		}
	}
}

// linkIdx gives the solvers the ground instance idx(s,i) == s.arr[s.off+i] for a slice read in the code, so
// that quantified facts stated with the idx trigger apply to it. Only for slices of non-integer elements
// (byte and integer slices are handled without quantifiers).
func (l *Lowerer) linkIdx(s, i *Term, elem types.Type) {
	if l.spec || l.cur == nil || s.Op == "mk_"+s.Sort {
		return
	}
	if b, ok := types.Unalias(elem).Underlying().(*types.Basic); ok && b.Info()&(types.IsInteger|types.IsBoolean|types.IsFloat) != 0 {
		return
	}
	r := l.p.reg
	name := "idx_" + s.Sort
	es := r.sliceElem(s.Sort)
	r.Fun(name, []string{s.Sort, "Int"}, es)
	r.Axiom(name, fmt.Sprintf("(forall ((s %s) (i Int)) (! (= (%s s i) (select (arr_%s s) (+ (off_%s s) i))) :pattern ((%s s i))))",
		s.Sort, name, s.Sort, s.Sort, name))
	l.assume(Eq(App(name, es, s, i), Select(r.sArr(s), Add(r.sOff(s), i))))
}

func hasBound(t *Term) bool {
	if t.Op == "bound" {
		return true
	}
	for _, a := range t.Args {
		if hasBound(a) {
			return true
		}
	}
	return false
}

func joinPath(a, b string) string {
	if a == "" {
		return b
	}
	return a + "." + b
}

func isPointer(t types.Type) bool {
	_, ok := types.Unalias(t).Underlying().(*types.Pointer)
	return ok
}

// wfLoad: well-formedness for values loaded from memory (skip struct aggregates).
func (l *Lowerer) wfLoad(v *Term, t types.Type) {
	if l.spec {
		// in specs: type facts of the state (integer ranges, slice shape) for closed terms only
		if hasBound(v) || l.cur == nil {
			return
		}
		if isRefLike(t) {
			return
		}
		saved := l.guard
		l.guard = nil
		l.wf(v, t)
		l.guard = saved
		return
	}
	l.wf(v, t)
}

func (l *Lowerer) store(pl *place, v *Term) {
	switch pl.kind {
	case pBlank:
		return
	case pLocal:
		l.assign(pl.name, l.p.sortOf(pl.typ), v)
	case pHeap:
		if st, _ := structOf(pl.typ); st != nil && !l.p.isOpaqueStruct(pl.typ) && !isPointer(pl.typ) {
			for i := 0; i < st.NumFields(); i++ {
				f := st.Field(i)
				sub := &place{kind: pHeap, ref: pl.ref, owner: pl.owner, path: joinPath(pl.path, f.Name()), typ: f.Type()}
				l.store(sub, App(structAccessor(v.Sort, f.Name()), l.p.sortOf(f.Type()), v))
			}
			return
		}
		hv := l.heapVar(l.fieldHeapName(pl.owner, pl.path), l.p.sortOf(pl.typ))
		l.p.heapVarTypes[l.fieldHeapName(pl.owner, pl.path)] = pl.typ
		l.guardedAccess(pl)
		l.assign(hv.Name, hv.Sort, Store(hv, pl.ref, v))
	case pIndex:
		b := l.load(pl.base)
		if _, ok := pl.base.typ.Underlying().(*types.Array); ok {
			l.store(pl.base, Store(b, pl.idx, v))
			return
		}
		r := l.p.reg
		nb := r.sMk(b.Sort, Store(r.sArr(b), Add(r.sOff(b), pl.idx), v), r.sOff(b), r.sLen(b), r.sCap(b), r.sNil(b))
		l.store(pl.base, nb)
	case pField:
		b := l.load(pl.base)
		st, _ := structOf(pl.base.typ)
		var args []*Term
		for i := 0; i < st.NumFields(); i++ {
			f := st.Field(i)
			if f.Name() == pl.field {
				args = append(args, v)
			} else {
				args = append(args, App(structAccessor(b.Sort, f.Name()), l.p.sortOf(f.Type()), b))
			}
		}
		l.store(pl.base, App("mk_"+b.Sort, b.Sort, args...))
	case pMap:
		dom, val, card := l.mapVars(pl.mtyp)
		l.safety("nilmap", "write to map", nil, Not(Eq(pl.ref, IntLit(0))))
		// the stored value is evaluated in the state before the update: m[k] = append(m[k], x) reads the old
		// entry (absent: the zero value), so it must not see the key as present already
		if v.Op != "lit" && v.Op != "var" {
			vt := l.tmp(v.Sort)
			l.assign(vt, v.Sort, v)
			v = V(vt, v.Sort)
		}
		had := Select(Select(dom, pl.ref), pl.idx)
		l.assign(card.Name, card.Sort, Store(card, pl.ref, Add(Select(card, pl.ref), Ite(had, IntLit(0), IntLit(1)))))
		l.assign(val.Name, val.Sort, Store(val, pl.ref, Store(Select(val, pl.ref), pl.idx, v)))
		l.assign(dom.Name, dom.Sort, Store(dom, pl.ref, Store(Select(dom, pl.ref), pl.idx, tTrue)))
	case pDeref:
		hv := l.heapVar("F.$deref."+sortIdent(l.p.sortOf(pl.typ)), l.p.sortOf(pl.typ))
		l.assign(hv.Name, hv.Sort, Store(hv, pl.ref, v))
	}
}

// mapVarsPlain declares the heap variables of a map type and returns their (current-state) names.
func (l *Lowerer) mapVarsPlain(mt *types.Map) (dom, val, card string) {
	saved := l.oldRename
	l.oldRename = nil
	d, v, c := l.mapVars(mt)
	l.oldRename = saved
	return d.Name, v.Name, c.Name
}

func (l *Lowerer) mapVars(mt *types.Map) (dom, val, card *Term) {
	ks := l.p.sortOf(mt.Key())
	vs := l.p.sortOf(mt.Elem())
	// one heap variable family per Go map type: maps of different types are different objects
	ts := types.TypeString(mt, func(pk *types.Package) string { return "" })
	ts = strings.NewReplacer("[", "_", "]", "_", "*", "p", " ", "", "{", "_", "}", "_", ";", "_", ".", "_", "(", "_", ")", "_", ",", "_").Replace(ts)
	base := "M." + ts
	dom = l.heapVar(base+".dom", arraySort(ks, "Bool"))
	val = l.heapVar(base+".val", arraySort(ks, vs))
	card = l.heapVar(base+".card", "Int")
	// the nil map has no keys (writes to it panic, so this holds at every program point); stated for the
	// current state only, as a ground fact
	if l.cur != nil && !strings.Contains(dom.Name, "@") {
		key := fmt.Sprintf("%d:%s", l.cur.ID, dom.Name)
		n := len(l.cur.Stmts)
		if l.nilMapFact == nil {
			l.nilMapFact = map[string]int{}
		}
		if at, ok := l.nilMapFact[key]; !ok || at != n {
			savedGuard := l.guard
			l.guard = nil
			l.assume(And(Eq(Select(dom, IntLit(0)), App("(as const "+arraySort(ks, "Bool")+")", arraySort(ks, "Bool"), tFalse)),
				Eq(Select(card, IntLit(0)), IntLit(0))))
			l.guard = savedGuard
			l.nilMapFact[key] = len(l.cur.Stmts)
		}
	}
	return
}

// ---------------------------------------------------------------------------
// identifiers and scopes

func (l *Lowerer) localVar(obj types.Object) string {
	return l.localVarNamed(obj, l.p.sortOf(obj.Type()))
}

func (l *Lowerer) localVarNamed(obj types.Object, sort string) string {
	for fr := l.fr; fr != nil; fr = fr.parent {
		if n, ok := fr.objVar[obj]; ok {
			return n
		}
		// closures share the enclosing frame chain only when inlined; stop at top otherwise
	}
	// first sight: declare in current frame
	name := l.fr.prefix + "l." + obj.Name()
	// disambiguate shadowed names by declaration offset
	for _, used := range l.fr.objVar {
		if used == name {
			name = fmt.Sprintf("%s@%d", name, l.p.fset.Position(obj.Pos()).Offset)
			break
		}
	}
	// the implicit variables of a type switch (one per clause) share name and position: number them
	for k := 2; ; k++ {
		clash := false
		for _, used := range l.fr.objVar {
			if used == name {
				clash = true
			}
		}
		if !clash {
			break
		}
		name = fmt.Sprintf("%s'%d", strings.SplitN(name, "'", 2)[0], k)
	}
	l.fr.objVar[obj] = name
	if sort == "Int" && l.isBoxed(obj) {
		return name
	}
	l.f.declare(name, sort)
	if l.f.VarTypes != nil && sort == l.p.sortOf(obj.Type()) {
		l.f.VarTypes[name] = obj.Type()
	}
	return name
}

// boxedLocals: local struct variables whose address is taken (explicitly or by calling a
// pointer-receiver method) are modelled as heap objects.
func (p *Prog) boxedLocals(fi *FuncInfo) map[types.Object]bool {
	if b, ok := p.boxedCache[fi]; ok {
		return b
	}
	out := map[types.Object]bool{}
	p.boxedCache[fi] = out
	if fi.Body == nil {
		return out
	}
	info := fi.Pkg.TypesInfo
	mark := func(e ast.Expr) {
		id, ok := ast.Unparen(e).(*ast.Ident)
		if !ok {
			return
		}
		v, ok := info.ObjectOf(id).(*types.Var)
		if !ok || v.IsField() || v.Pkg() == nil || v.Parent() == v.Pkg().Scope() {
			return
		}
		if st, _ := structOf(v.Type()); st != nil && !isPointer(v.Type()) && !p.isOpaqueStruct(v.Type()) {
			out[v] = true
		}
	}
	ast.Inspect(fi.Body, func(n ast.Node) bool {
		switch x := n.(type) {
		case *ast.UnaryExpr:
			if x.Op == token.AND {
				mark(x.X)
			}
		case *ast.SelectorExpr:
			if sel := info.Selections[x]; sel != nil && sel.Kind() == types.MethodVal {
				if sig, ok := sel.Obj().Type().(*types.Signature); ok && sig.Recv() != nil && isPointer(sig.Recv().Type()) && !isPointer(sel.Recv()) {
					mark(x.X)
				}
			}
		}
		return true
	})
	return out
}

func (l *Lowerer) isBoxed(obj types.Object) bool {
	for fr := l.fr; fr != nil; fr = fr.parent {
		if l.p.boxedLocals(fr.fi)[obj] {
			return true
		}
		for fi := fr.fi.Parent; fi != nil; fi = fi.Parent {
			if l.p.boxedLocals(fi)[obj] {
				return true
			}
		}
	}
	return false
}

// boxedPlace returns the heap place of a boxed local; the reference variable is <name>$ref.
func (l *Lowerer) boxedPlace(v *types.Var) *place {
	name := l.localVarNamed(v, "Int") + "$ref"
	l.f.declare(name, "Int")
	_, stt := structOf(v.Type())
	return &place{kind: pHeap, ref: V(name, "Int"), owner: l.p.structName(stt), path: "", typ: stt}
}

// declareBoxed allocates the object behind a boxed local at its declaration.
func (l *Lowerer) declareBoxed(v *types.Var) *place {
	pl := l.boxedPlace(v)
	r := l.alloc()
	l.assign(pl.ref.Name, "Int", r)
	l.emit(&Stmt{Kind: SAllocZero, Struct: pl.owner, Ref: r})
	return pl
}

func (l *Lowerer) pushEnv(m map[string]envEntry) { l.env = append(l.env, m) }
func (l *Lowerer) popEnv()                       { l.env = l.env[:len(l.env)-1] }

func (l *Lowerer) lookupEnv(name string) (envEntry, bool) {
	if !l.spec {
		return envEntry{}, false
	}
	for i := len(l.env) - 1; i >= 0; i-- {
		if e, ok := l.env[i][name]; ok {
			return e, true
		}
	}
	return envEntry{}, false
}

// ---------------------------------------------------------------------------
// expression translation. Returns the term and its Go type.

func (l *Lowerer) typeOf(e ast.Expr) types.Type {
	if tv, ok := l.info().Types[e]; ok {
		return tv.Type
	}
	if id, ok := e.(*ast.Ident); ok {
		if o := l.info().ObjectOf(id); o != nil {
			return o.Type()
		}
	}
	return nil
}

func constTerm(v constant.Value, t types.Type, p *Prog) *Term {
	switch v.Kind() {
	case constant.Bool:
		if constant.BoolVal(v) {
			return tTrue
		}
		return tFalse
	case constant.Int:
		bi, ok := new(big.Int).SetString(v.ExactString(), 10)
		if !ok {
			return nil
		}
		if t != nil && p.sortOf(t) == "Real" {
			return Lit(bi.String()+".0", "Real")
		}
		return BigLit(bi)
	case constant.String:
		return p.strLit(constant.StringVal(v))
	case constant.Float:
		if t != nil && p.sortOf(t) == "Int" {
			if iv := constant.ToInt(v); iv.Kind() == constant.Int {
				bi, _ := new(big.Int).SetString(iv.ExactString(), 10)
				return BigLit(bi)
			}
		}
		r, _ := new(big.Rat).SetString(v.ExactString())
		if r == nil {
			return nil
		}
		return Lit(fmt.Sprintf("(/ %s.0 %s.0)", r.Num().String(), r.Denom().String()), "Real")
	}
	return nil
}

// expr translates a Go expression of the real code (types from go/types).
func (l *Lowerer) expr(e ast.Expr) *Term {
	t, _ := l.tr(e)
	return t
}

func (l *Lowerer) tr(e ast.Expr) (*Term, types.Type) {
	// constants known to the type checker
	if !l.spec {
		if tv, ok := l.info().Types[e]; ok && tv.Value != nil {
			if ct := constTerm(tv.Value, tv.Type, l.p); ct != nil {
				return ct, tv.Type
			}
		}
	}
	switch x := e.(type) {
	case *ast.ParenExpr:
		return l.tr(x.X)
	case *ast.BasicLit:
		return l.trBasicLit(x)
	case *ast.Ident:
		return l.trIdent(x)
	case *ast.SelectorExpr:
		return l.trSelector(x)
	case *ast.StarExpr:
		pt, ptyp := l.tr(x.X)
		pp, ok := ptyp.Underlying().(*types.Pointer)
		if !ok {
			l.unsupported(e, "deref of non-pointer")
			return l.freshVal(l.typeOf(e)), l.typeOf(e)
		}
		pl := l.derefPlace(pt, pp.Elem())
		return l.load(pl), pp.Elem()
	case *ast.UnaryExpr:
		return l.trUnary(x)
	case *ast.BinaryExpr:
		return l.trBinary(x)
	case *ast.IndexExpr:
		return l.trIndex(x)
	case *ast.SliceExpr:
		return l.trSlice(x)
	case *ast.CallExpr:
		return l.trCall(x)
	case *ast.CompositeLit:
		return l.trComposite(x, nil)
	case *ast.TypeAssertExpr:
		v, ok, typ := l.typeAssert(x)
		if !l.spec {
			l.safety("typeassert", l.exprText(x), x, ok)
		}
		return v, typ
	case *ast.FuncLit:
		return l.trFuncLit(x)
	case *ast.KeyValueExpr:
		return l.tr(x.Value)
	}
	l.unsupported(e, fmt.Sprintf("expression %T", e))
	t := l.typeOf(e)
	return l.freshVal(t), t
}

func (l *Lowerer) trBasicLit(x *ast.BasicLit) (*Term, types.Type) {
	switch x.Kind {
	case token.INT:
		bi, ok := new(big.Int).SetString(x.Value, 0)
		if !ok {
			panic("bad int literal " + x.Value)
		}
		return BigLit(bi), types.Typ[types.UntypedInt]
	case token.STRING:
		s := constant.StringVal(constant.MakeFromLiteral(x.Value, token.STRING, 0))
		return l.p.strLit(s), types.Typ[types.String]
	case token.CHAR:
		v := constant.MakeFromLiteral(x.Value, token.CHAR, 0)
		n, _ := constant.Int64Val(v)
		return IntLit(n), types.Typ[types.UntypedRune]
	case token.FLOAT:
		return Lit(x.Value, "Real"), types.Typ[types.UntypedFloat]
	}
	panic("literal")
}

func (l *Lowerer) trIdent(x *ast.Ident) (*Term, types.Type) {
	if x.Name == "_" {
		return IntLit(0), types.Typ[types.Int]
	}
	if en, ok := l.lookupEnv(x.Name); ok {
		t := en.t
		if l.oldRename != nil && t.Op == "var" && !strings.Contains(t.Name, "@") {
			// old(param) inside old(): parameters in env are already entry values
		}
		return t, en.typ
	}
	var obj types.Object
	if !l.spec {
		obj = l.info().ObjectOf(x)
	}
	if obj == nil {
		obj = l.lookupName(x.Name)
	}
	if obj == nil {
		switch x.Name {
		case "true":
			return tTrue, types.Typ[types.Bool]
		case "false":
			return tFalse, types.Typ[types.Bool]
		case "nil":
			return IntLit(0), types.Typ[types.UntypedNil]
		}
		panic(fmt.Sprintf("%s: unresolved identifier %q", l.fnKey, x.Name))
	}
	return l.objTerm(obj, x)
}

// lookupName resolves a name for spec expressions: function scope, then package scope, then universe.
func (l *Lowerer) lookupName(name string) types.Object {
	pk := l.fr.fi.Pkg
	if ct := l.fr.contract; ct != nil && ct.LocalNames != nil {
		if def, ok := ct.LocalNames[name]; ok {
			// the local defined by `x := <def>` in this function or an enclosing one
			for fi := l.fr.fi; fi != nil; fi = fi.Parent {
				if fi.Body == nil {
					continue
				}
				var found types.Object
				ast.Inspect(fi.Body, func(n ast.Node) bool {
					as, ok := n.(*ast.AssignStmt)
					if !ok || as.Tok != token.DEFINE || len(as.Lhs) != 1 || len(as.Rhs) != 1 {
						return true
					}
					if id, ok := as.Lhs[0].(*ast.Ident); ok && types.ExprString(as.Rhs[0]) == def {
						if o := pk.TypesInfo.Defs[id]; o != nil && found == nil {
							found = o
						}
					}
					return true
				})
				if found != nil {
					return found
				}
			}
		}
	}
	if l.specPos.IsValid() {
		if sc := pk.Types.Scope().Innermost(l.specPos); sc != nil {
			if _, o := sc.LookupParent(name, l.specPos); o != nil {
				return o
			}
		}
	}
	for fi := l.fr.fi; fi != nil; fi = fi.Parent {
		if fi.Body != nil {
			// the function's outermost block at its end: parameters, results and every variable declared
			// at the top level of the body are visible to specs
			sc := pk.Types.Scope().Innermost(fi.Body.Rbrace)
			if sc != nil {
				if _, o := sc.LookupParent(name, fi.Body.Rbrace); o != nil {
					return o
				}
			}
		}
	}
	if o := pk.Types.Scope().Lookup(name); o != nil {
		return o
	}
	// mocks specs may refer to sarama names
	for _, other := range l.p.pkgs {
		if other != pk {
			if o := other.Types.Scope().Lookup(name); o != nil {
				return o
			}
		}
	}
	return types.Universe.Lookup(name)
}

func (l *Lowerer) objTerm(obj types.Object, node ast.Node) (*Term, types.Type) {
	switch o := obj.(type) {
	case *types.Const:
		ct := constTerm(o.Val(), o.Type(), l.p)
		if ct == nil {
			panic("const " + o.Name())
		}
		return ct, o.Type()
	case *types.Nil:
		return IntLit(0), types.Typ[types.UntypedNil]
	case *types.Var:
		if o.IsField() {
			panic("field as identifier: " + o.Name())
		}
		if o.Parent() == o.Pkg().Scope() {
			return l.globalVar(o), o.Type()
		}
		if l.isBoxed(o) {
			return l.load(l.boxedPlace(o)), o.Type()
		}
		pl := &place{kind: pLocal, name: l.localVar(o), typ: o.Type()}
		return l.load(pl), o.Type()
	case *types.Func:
		// function value
		name := "fn." + o.FullName()
		l.p.reg.Fun(name, nil, "Int")
		l.p.reg.Axiom(name, "(> "+smtName(name)+" 0)")
		return App(name, "Int"), o.Type()
	case *types.TypeName, *types.Builtin:
		panic(fmt.Sprintf("%s: type or builtin %s used as value", l.pos(node), o.Name()))
	}
	panic(fmt.Sprintf("object %T", obj))
}

// globalVar: package-level variables are constants of the verification (assumed not reassigned),
// non-nil when initialised with a call or composite literal of reference kind.
func (l *Lowerer) globalVar(o *types.Var) *Term {
	s := l.p.sortOf(o.Type())
	name := "g." + o.Pkg().Name() + "." + o.Name()
	if l.p.inRepo(o.Pkg()) && !l.p.globalIsConst(o) {
		// mutable global: heap-like variable
		l.f.declare(name, s)
		l.f.HeapVars[name] = true
		n := name
		if l.oldRename != nil {
			n = l.oldRename(name)
			l.f.declare(n, s)
		}
		v := V(n, s)
		l.wfLoad(v, o.Type())
		return v
	}
	l.p.reg.Fun(name, nil, s)
	if lo, hi, ok := intRange(o.Type()); ok {
		l.p.reg.Axiom(name, fmt.Sprintf("(and (<= %s %s) (<= %s %s))", lo, smtName(name), smtName(name), hi))
	}
	if isRefLike(o.Type()) {
		switch l.p.globalNilness(o) {
		case 1:
			// sentinel errors and similar: distinct non-nil references below every allocation
			l.p.reg.Axiom(name, "(> "+smtName(name)+" 0)")
			if _, isIface := o.Type().Underlying().(*types.Interface); isIface {
				l.p.sentinels[name] = true
			}
		case -1:
			// never assigned and initialised to nil (or not at all): the zero value
			l.p.reg.Axiom(name, "(= "+smtName(name)+" 0)")
		}
	}
	return App(name, s)
}

func (l *Lowerer) trSelector(x *ast.SelectorExpr) (*Term, types.Type) {
	// package-qualified identifier
	if id, ok := x.X.(*ast.Ident); ok && !l.spec {
		if _, isPkg := l.info().ObjectOf(id).(*types.PkgName); isPkg {
			obj := l.info().ObjectOf(x.Sel)
			return l.objTerm(obj, x)
		}
	}
	if l.spec {
		if id, ok := x.X.(*ast.Ident); ok {
			if _, bound := l.lookupEnv(id.Name); !bound {
				if pn, isPkg := l.lookupName(id.Name).(*types.PkgName); isPkg {
					obj := pn.Imported().Scope().Lookup(x.Sel.Name)
					if obj == nil {
						panic("unknown " + id.Name + "." + x.Sel.Name)
					}
					return l.objTerm(obj, x)
				}
			}
		}
	}
	pl := l.placeOfSelector(x)
	if pl == nil {
		// method value of a method of the package (go withRecover(b.responseReceiver)): a function value whose
		// possible effects - whenever unknown code invokes it - are those of the method (like an escaping closure)
		if sel, ok := l.info().Selections[x]; ok && sel.Kind() == types.MethodVal && !l.spec {
			if fn, ok := sel.Obj().(*types.Func); ok && fn.Pkg() != nil {
				if mfi := l.p.funcs[l.p.prefixOfType(sel.Recv())+namedOf(sel.Recv())+"."+fn.Name()]; mfi != nil && mfi.Body != nil {
					l.tr(x.X)
					for k := range l.p.modset(mfi) {
						l.escapedHeap[k] = true
					}
					return l.alloc(), l.typeOf(x)
				}
			}
		}
		l.unsupported(x, "method value")
		t := l.typeOf(x)
		return l.freshVal(t), t
	}
	return l.load(pl), pl.typ
}

// findField finds a (possibly promoted) field or ghost field in a struct type; returns the path of names.
func (l *Lowerer) findField(t types.Type, name string) (path []*types.Var, ghostType types.Type, ok bool) {
	st, stt := structOf(t)
	if st == nil {
		return nil, nil, false
	}
	obj, index, _ := types.LookupFieldOrMethod(stt, true, l.fr.fi.Pkg.Types, name)
	if v, isVar := obj.(*types.Var); isVar && v.IsField() {
		cur := st
		for _, i := range index {
			f := cur.Field(i)
			path = append(path, f)
			cur, _ = structOf(f.Type())
		}
		return path, nil, true
	}
	// unexported field of another package in the repo
	for i := 0; i < st.NumFields(); i++ {
		if st.Field(i).Name() == name {
			return []*types.Var{st.Field(i)}, nil, true
		}
	}
	if gf, ok := l.p.ghostFields[l.p.structName(stt)]; ok {
		if gt, ok := gf[name]; ok {
			return nil, l.ghostType(gt), true
		}
	}
	return nil, nil, false
}

func (l *Lowerer) ghostType(s string) types.Type {
	switch s {
	case "int":
		return types.Typ[types.Int]
	case "bool":
		return types.Typ[types.Bool]
	case "mathint":
		return types.Typ[types.UntypedInt]
	case "ref":
		return types.NewPointer(types.Typ[types.Int])
	}
	if o := types.Universe.Lookup(s); o != nil {
		return o.Type()
	}
	if o := l.lookupName(strings.TrimPrefix(s, "*")); o != nil {
		if strings.HasPrefix(s, "*") {
			return types.NewPointer(o.Type())
		}
		return o.Type()
	}
	panic("unknown ghost type " + s)
}

func (l *Lowerer) placeOfSelector(x *ast.SelectorExpr) *place {
	name := x.Sel.Name
	// base
	var baseT *Term
	var baseTyp types.Type
	var basePl *place
	if inner, ok := ast.Unparen(x.X).(*ast.SelectorExpr); ok && !l.isPkgSel(inner) {
		basePl = l.placeOfSelector(inner)
		if basePl != nil {
			baseTyp = basePl.typ
		}
	}
	if basePl == nil {
		if inner, ok := ast.Unparen(x.X).(*ast.IndexExpr); ok && !l.spec {
			basePl = l.placeOf(inner)
			baseTyp = basePl.typ
		} else if id, ok := ast.Unparen(x.X).(*ast.Ident); ok {
			if _, bound := l.lookupEnv(id.Name); !bound {
				var obj types.Object
				if !l.spec {
					obj = l.info().ObjectOf(id)
				} else {
					obj = l.lookupName(id.Name)
				}
				if v, isVar := obj.(*types.Var); isVar && !v.IsField() && v.Parent() != v.Pkg().Scope() {
					if l.isBoxed(v) {
						basePl = l.boxedPlace(v)
					} else {
						basePl = &place{kind: pLocal, name: l.localVar(v), typ: v.Type()}
					}
					baseTyp = v.Type()
				}
			}
		}
	}
	if basePl == nil {
		baseT, baseTyp = l.tr(x.X)
	}
	if baseTyp == nil {
		panic(l.pos(x) + ": no type for selector base")
	}
	// method?
	path, ghostT, ok := l.findField(baseTyp, name)
	if !ok {
		return nil
	}
	// reference base: pointer to struct
	if isPointer(baseTyp) {
		if baseT == nil {
			baseT = l.load(basePl)
		}
		_, stt := structOf(baseTyp)
		owner := l.p.structName(stt)
		if ghostT != nil {
			return &place{kind: pHeap, ref: baseT, owner: owner, path: name, typ: ghostT}
		}
		return l.descend(&place{kind: pHeap, ref: baseT, owner: owner, path: "", typ: stt}, path)
	}
	// value struct base
	if basePl == nil {
		if l.spec {
			// a struct value inside a spec: no temporaries (the term may mention bound variables)
			basePl = &place{kind: pTerm, term: baseT, typ: baseTyp}
		} else {
			// rvalue struct: wrap in a temp local
			tn := l.tmp(baseT.Sort)
			l.assign(tn, baseT.Sort, baseT)
			basePl = &place{kind: pLocal, name: tn, typ: baseTyp}
		}
	}
	if ghostT != nil {
		panic("ghost field on value struct")
	}
	return l.descend(basePl, path)
}

func (l *Lowerer) isPkgSel(x *ast.SelectorExpr) bool {
	if id, ok := x.X.(*ast.Ident); ok {
		if l.spec {
			if _, bound := l.lookupEnv(id.Name); bound {
				return false
			}
			_, isPkg := l.lookupName(id.Name).(*types.PkgName)
			return isPkg
		}
		_, isPkg := l.info().ObjectOf(id).(*types.PkgName)
		return isPkg
	}
	return false
}

// descend follows a field path from a place.
func (l *Lowerer) descend(pl *place, path []*types.Var) *place {
	for _, f := range path {
		switch {
		case pl.kind == pHeap && !isPointer(pl.typ):
			np := pl.path
			if np != "" {
				np += "."
			}
			pl = &place{kind: pHeap, ref: pl.ref, owner: pl.owner, path: np + f.Name(), typ: f.Type()}
		case isPointer(pl.typ):
			// embedded pointer: load and restart at the pointee
			ref := l.load(pl)
			_, stt := structOf(pl.typ)
			pl = &place{kind: pHeap, ref: ref, owner: l.p.structName(stt), path: f.Name(), typ: f.Type()}
		default:
			pl = &place{kind: pField, base: pl, field: f.Name(), typ: f.Type()}
		}
	}
	return pl
}

func (l *Lowerer) derefPlace(ptr *Term, elem types.Type) *place {
	if st, stt := structOf(elem); st != nil && !l.p.isOpaqueStruct(elem) {
		return &place{kind: pHeap, ref: ptr, owner: l.p.structName(stt), path: "", typ: stt}
	}
	return &place{kind: pDeref, ref: ptr, typ: elem}
}

// placeOf computes the place of an addressable expression (or map element).
func (l *Lowerer) placeOf(e ast.Expr) *place {
	switch x := ast.Unparen(e).(type) {
	case *ast.Ident:
		if x.Name == "_" {
			return &place{kind: pBlank}
		}
		var obj types.Object
		if !l.spec {
			obj = l.info().ObjectOf(x)
		} else {
			obj = l.lookupName(x.Name)
		}
		v, ok := obj.(*types.Var)
		if !ok {
			panic(l.pos(e) + ": not a variable: " + x.Name)
		}
		if v.Parent() == v.Pkg().Scope() {
			name := "g." + v.Pkg().Name() + "." + v.Name()
			l.f.HeapVars[name] = true
			return &place{kind: pLocal, name: name, typ: v.Type()}
		}
		if l.isBoxed(v) {
			return l.boxedPlace(v)
		}
		return &place{kind: pLocal, name: l.localVar(v), typ: v.Type()}
	case *ast.SelectorExpr:
		pl := l.placeOfSelector(x)
		if pl == nil {
			panic(l.pos(e) + ": selector is not a field")
		}
		return pl
	case *ast.StarExpr:
		pt, ptyp := l.tr(x.X)
		return l.derefPlace(pt, ptyp.Underlying().(*types.Pointer).Elem())
	case *ast.IndexExpr:
		bt := l.typeOfExpr(x.X)
		switch u := bt.Underlying().(type) {
		case *types.Map:
			m, _ := l.tr(x.X)
			k, kt := l.tr(x.Index)
			k = l.convertTo(k, kt, u.Key())
			return &place{kind: pMap, ref: m, idx: k, typ: u.Elem(), mtyp: u}
		case *types.Slice:
			base := l.placeOfOrTemp(x.X)
			i, _ := l.tr(x.Index)
			bv := l.load(base)
			l.safety("index", l.exprText(x), x, And(Le(IntLit(0), i), Lt(i, l.p.reg.sLen(bv))))
			return &place{kind: pIndex, base: base, idx: i, typ: u.Elem()}
		case *types.Array:
			base := l.placeOfOrTemp(x.X)
			i, _ := l.tr(x.Index)
			l.safety("index", l.exprText(x), x, And(Le(IntLit(0), i), Lt(i, IntLit(u.Len()))))
			return &place{kind: pIndex, base: base, idx: i, typ: u.Elem()}
		case *types.Pointer: // pointer to array
			l.unsupported(e, "index through pointer to array")
		}
	}
	l.unsupported(e, fmt.Sprintf("place of %T", e))
	t := l.typeOfExpr(e)
	tn := l.tmp(l.p.sortOf(t))
	l.havoc(tn, l.p.sortOf(t))
	return &place{kind: pLocal, name: tn, typ: t}
}

func (l *Lowerer) placeOfOrTemp(e ast.Expr) *place {
	switch ast.Unparen(e).(type) {
	case *ast.Ident, *ast.SelectorExpr, *ast.IndexExpr, *ast.StarExpr:
		if sel, ok := ast.Unparen(e).(*ast.SelectorExpr); ok && l.isPkgSel(sel) {
			break
		}
		if id, ok := ast.Unparen(e).(*ast.Ident); ok {
			if en, bound := l.lookupEnv(id.Name); bound {
				tn := l.tmp(en.t.Sort)
				l.assign(tn, en.t.Sort, en.t)
				return &place{kind: pLocal, name: tn, typ: en.typ}
			}
		}
		return l.placeOf(e)
	}
	t, typ := l.tr(e)
	tn := l.tmp(t.Sort)
	l.assign(tn, t.Sort, t)
	return &place{kind: pLocal, name: tn, typ: typ}
}

// typeOfExpr: type of an expression in code or spec mode.
func (l *Lowerer) typeOfExpr(e ast.Expr) types.Type {
	if !l.spec {
		if t := l.typeOf(e); t != nil {
			return t
		}
	}
	// spec mode: translate without side effects to find the type
	savedCur := l.cur
	l.cur = nil
	_, t := l.tr(e)
	l.cur = savedCur
	return t
}

// convertTo adapts a value to a target type (interface boxing, integer wrapping of constants).
func (l *Lowerer) convertTo(v *Term, from, to types.Type) *Term {
	if from == nil || to == nil {
		return v
	}
	from = types.Unalias(from)
	to = types.Unalias(to)
	if _, toIface := to.Underlying().(*types.Interface); toIface {
		if _, fromIface := from.Underlying().(*types.Interface); fromIface {
			return v
		}
		if b, ok := from.(*types.Basic); ok && b.Kind() == types.UntypedNil {
			return v
		}
		return l.box(v, from)
	}
	ts := l.p.sortOf(to)
	if v.Sort == "Int" && ts == "Real" {
		return App("to_real", "Real", v)
	}
	if v.Sort == "Int" && strings.HasPrefix(ts, "Slice_") && isUntypedNil(from) {
		return l.p.nilSlice(ts)
	}
	return v
}

// box converts a concrete value to an interface value.
func (l *Lowerer) box(v *Term, from types.Type) *Term {
	if isRefLike(from) {
		// pointers, maps, funcs, chans: the reference itself; dynamic type recorded. A nil pointer stored in an
		// interface is a non-nil interface value: it is represented by a negative constant per type.
		if _, isPtr := types.Unalias(from).Underlying().(*types.Pointer); isPtr && v.Op != "lit" {
			id := l.p.typeID(from)
			nb := App("-", "Int", id)
			if !l.spec {
				l.assume(Implies(Not(Eq(v, IntLit(0))), Eq(App("dyntype", "Int", v), id)))
				l.assume(Eq(App("dyntype", "Int", nb), id))
			}
			return Ite(Eq(v, IntLit(0)), nb, v)
		}
		if !l.spec {
			l.assume(Implies(Not(Eq(v, IntLit(0))), Eq(App("dyntype", "Int", v), l.p.typeID(from))))
		}
		return v
	}
	s := l.p.sortOf(from)
	tn := sortIdent(types.TypeString(from, func(p *types.Package) string { return p.Name() }))
	tn = strings.NewReplacer("[", "_", "]", "_", "*", "p", ".", "_", "{", "_", "}", "_", ";", "_").Replace(tn)
	bf := "box." + tn
	uf := "unbox." + tn
	l.p.reg.Fun(bf, []string{s}, "Int")
	l.p.reg.Fun(uf, []string{"Int"}, s)
	b := App(bf, "Int", v)
	// boxing is injective and records the dynamic type (stated once per boxed type, and as a ground fact for
	// terms without bound variables)
	if !hasBound(v) {
		l.assume(And(Eq(App(uf, s, b), v), Eq(App("dyntype", "Int", b), l.p.typeID(from)), Lt(IntLit(0), b)))
	}
	return b
}

func (l *Lowerer) unbox(v *Term, to types.Type) *Term {
	if isRefLike(to) {
		if _, isPtr := types.Unalias(to).Underlying().(*types.Pointer); isPtr {
			return Ite(Lt(v, IntLit(0)), IntLit(0), v) // a boxed nil pointer
		}
		return v
	}
	s := l.p.sortOf(to)
	tn := sortIdent(types.TypeString(to, func(p *types.Package) string { return p.Name() }))
	tn = strings.NewReplacer("[", "_", "]", "_", "*", "p", ".", "_", "{", "_", "}", "_", ";", "_").Replace(tn)
	bf := "box." + tn
	uf := "unbox." + tn
	l.p.reg.Fun(bf, []string{s}, "Int")
	l.p.reg.Fun(uf, []string{"Int"}, s)
	u := App(uf, s, v)
	// boxing is injective: box(unbox(v)) == v when v has this dynamic type
	// (facts about the box/unbox functions themselves: valid whatever the quantifier context, so stated without it)
	if !hasBound(v) {
		savedGuard := l.guard
		l.guard = nil
		l.assume(Implies(Eq(App("dyntype", "Int", v), l.p.typeID(to)), Eq(App(bf, "Int", u), v)))
		l.wf(u, to)
		l.guard = savedGuard
	}
	return u
}

func (l *Lowerer) typeAssert(x *ast.TypeAssertExpr) (val *Term, ok *Term, typ types.Type) {
	v, _ := l.tr(x.X)
	if l.spec {
		typ = l.specType(x.Type)
	} else {
		typ = l.typeOf(x.Type)
	}
	if _, isIface := typ.Underlying().(*types.Interface); isIface {
		// the assertion succeeds iff the value is not nil and its dynamic type implements the interface: a
		// function of the dynamic type (uninterpreted, true for the repo types known to implement it)
		okT := l.implementsTerm(v, typ)
		return Ite(okT, v, IntLit(0)), okT, typ
	}
	okT := And(Not(Eq(v, IntLit(0))), Eq(App("dyntype", "Int", v), l.p.typeID(typ)))
	return l.unbox(v, typ), okT, typ
}

// implementsTerm: x != nil && impl_<I>(dyntype(x)).
func (l *Lowerer) implementsTerm(v *Term, iface types.Type) *Term {
	name := "impl." + sanitizeFile(types.TypeString(iface, func(*types.Package) string { return "" }))
	if !l.p.implFuns[name] {
		if l.p.implFuns == nil {
			l.p.implFuns = map[string]bool{}
		}
		l.p.implFuns[name] = true
		l.p.reg.Fun(name, []string{"Int"}, "Bool")
	}
	dt := App("dyntype", "Int", v)
	impl := l.p.implementers(iface)
	if impl != nil && !l.spec {
		var alts []*Term
		for _, it := range impl {
			alts = append(alts, Eq(dt, l.p.typeID(it)))
		}
		l.assume(Implies(Or(alts...), App(name, "Bool", dt)))
	}
	return And(Not(Eq(v, IntLit(0))), App(name, "Bool", dt))
}

func (l *Lowerer) specType(e ast.Expr) types.Type {
	switch x := e.(type) {
	case *ast.Ident:
		o := l.lookupName(x.Name)
		if tn, ok := o.(*types.TypeName); ok {
			return tn.Type()
		}
		panic("not a type: " + x.Name)
	case *ast.StarExpr:
		return types.NewPointer(l.specType(x.X))
	case *ast.ArrayType:
		return types.NewSlice(l.specType(x.Elt))
	case *ast.SelectorExpr:
		id := x.X.(*ast.Ident)
		if pn, ok := l.lookupName(id.Name).(*types.PkgName); ok {
			if tn, ok := pn.Imported().Scope().Lookup(x.Sel.Name).(*types.TypeName); ok {
				return tn.Type()
			}
		}
		// outside any function scope (ghost declarations): a package imported by the verified packages
		for _, pk := range l.p.pkgs {
			for _, imp := range pk.Types.Imports() {
				if imp.Name() == id.Name {
					if tn, ok := imp.Scope().Lookup(x.Sel.Name).(*types.TypeName); ok {
						return tn.Type()
					}
				}
			}
		}
	case *ast.ParenExpr:
		return l.specType(x.X)
	}
	panic(fmt.Sprintf("spec type %T", e))
}

func (l *Lowerer) trUnary(x *ast.UnaryExpr) (*Term, types.Type) {
	switch x.Op {
	case token.NOT:
		v, t := l.tr(x.X)
		return Not(v), t
	case token.SUB:
		v, t := l.tr(x.X)
		if v.Sort == "Real" {
			return App("-", "Real", v), t
		}
		return l.wrap(App("-", "Int", v), t), t
	case token.ADD:
		return l.tr(x.X)
	case token.XOR:
		v, t := l.tr(x.X)
		// ^x == -x-1 for signed; for unsigned max-x
		if lo, hi, ok := intRange(t); ok && lo == "0" {
			return Sub(Lit(hi, "Int"), v), t
		}
		return Sub(App("-", "Int", v), IntLit(1)), t
	case token.AND:
		return l.addrOf(x)
	case token.ARROW:
		defer l.havocChanLen()
		return l.recv(x.X, x)
	}
	l.unsupported(x, "unary "+x.Op.String())
	t := l.typeOf(x)
	return l.freshVal(t), t
}

func (l *Lowerer) addrOf(x *ast.UnaryExpr) (*Term, types.Type) {
	typ := l.typeOf(x)
	switch inner := ast.Unparen(x.X).(type) {
	case *ast.CompositeLit:
		return l.trComposite(inner, typ)
	default:
		innerT := l.typeOf(x.X)
		if id, ok := inner.(*ast.Ident); ok {
			if v, ok := l.info().ObjectOf(id).(*types.Var); ok && l.isBoxed(v) {
				return l.boxedPlace(v).ref, typ
			}
		}
		if st, stt := structOf(innerT); st != nil && !isPointer(innerT) && !l.p.isOpaqueStruct(innerT) {
			// &s[i] / &x.f of struct type: a fresh object holding a copy of the value (aliasing with the
			// original location is not modelled: later writes through either are not seen by the other)
			if _, isIdx := inner.(*ast.IndexExpr); isIdx || true {
				v, _ := l.tr(x.X)
				r := l.alloc()
				owner := l.p.structName(stt)
				l.emit(&Stmt{Kind: SAllocZero, Struct: owner, Ref: r})
				l.store(&place{kind: pHeap, ref: r, owner: owner, path: "", typ: stt}, v)
				l.note("A-addr: &e of a struct value stored in another object is a copy; aliasing with the original is not modelled")
				return r, typ
			}
		}
		if l.p.isOpaqueStruct(innerT) {
			// &mutex etc: an opaque reference
			return l.freshVal(typ), typ
		}
		// &scalar: allocate a cell holding the current value (aliasing with the variable is not modelled)
		v, vt := l.tr(x.X)
		r := l.alloc()
		l.store(&place{kind: pDeref, ref: r, typ: vt}, v)
		l.note("A-addr: &x of a scalar is a copy; later writes to x are not seen through the pointer")
		return r, typ
	}
}

func (l *Lowerer) wrap(v *Term, t types.Type) *Term {
	if l.spec {
		// spec arithmetic is mathematical unless the type is explicitly converted
		return v
	}
	if t == nil {
		return v
	}
	if b, ok := t.Underlying().(*types.Basic); ok && b.Info()&types.IsUntyped != 0 {
		return v
	}
	if w := wrapFn(t); w != "" {
		if l.topCt != nil && l.topCt.MathInts && (w == "wrap64" || w == "wrapint") {
			// contract option math_ints: int/int64 arithmetic of this function is treated as mathematical
			// (no 2^63 wrap-around); reported as an assumption
			l.note("A-mathint: int and int64 arithmetic of this function is treated as mathematical (contract option math_ints)")
			return v
		}
		return App(w, "Int", v)
	}
	return v
}

func (l *Lowerer) trBinary(x *ast.BinaryExpr) (*Term, types.Type) {
	switch x.Op {
	case token.ARROW: // ==> (spec only)
		a, _ := l.tr(x.X)
		l.guard = append(l.guard, a)
		b, _ := l.tr(x.Y)
		l.guard = l.guard[:len(l.guard)-1]
		return Implies(a, b), types.Typ[types.Bool]
	case token.LAND:
		a, _ := l.tr(x.X)
		l.guard = append(l.guard, a)
		b, _ := l.tr(x.Y)
		l.guard = l.guard[:len(l.guard)-1]
		return And(a, b), types.Typ[types.Bool]
	case token.LOR:
		a, _ := l.tr(x.X)
		l.guard = append(l.guard, Not(a))
		b, _ := l.tr(x.Y)
		l.guard = l.guard[:len(l.guard)-1]
		return Or(a, b), types.Typ[types.Bool]
	}
	a, at := l.tr(x.X)
	b, bt := l.tr(x.Y)
	var rt types.Type
	if !l.spec {
		rt = l.typeOf(x)
	}
	// operand type: the typed one
	ot := at
	if isUntyped(at) || at == nil {
		ot = bt
	}
	switch x.Op {
	case token.EQL, token.NEQ:
		// interface vs concrete comparison: box the concrete side
		if ot != nil && at != nil && bt != nil {
			_, ai := at.Underlying().(*types.Interface)
			_, bi := bt.Underlying().(*types.Interface)
			// a concrete value under a bound variable: equality of interface values unfolded (same dynamic
			// type, equal value) instead of boxing a non-ground term
			unfold := func(iface, conc *Term, ct types.Type) *Term {
				eq := And(Not(Eq(iface, IntLit(0))), Eq(App("dyntype", "Int", iface), l.p.typeID(ct)), Eq(l.unbox(iface, ct), conc))
				if x.Op == token.NEQ {
					return Not(eq)
				}
				return eq
			}
			if ai && !bi && !isUntypedNil(bt) {
				if hasBound(b) && !isRefLike(bt) {
					return unfold(a, b, bt), types.Typ[types.Bool]
				}
				b = l.box(b, bt)
			} else if bi && !ai && !isUntypedNil(at) {
				if hasBound(a) && !isRefLike(at) {
					return unfold(b, a, at), types.Typ[types.Bool]
				}
				a = l.box(a, at)
			}
		}
		if a.Sort == "Real" && b.Sort == "Int" {
			b = App("to_real", "Real", b)
		}
		if b.Sort == "Real" && a.Sort == "Int" {
			a = App("to_real", "Real", a)
		}
		var eq *Term
		if strings.HasPrefix(a.Sort, "Slice_") {
			// only comparison with nil is legal
			if isLit(b, "0") || b.Sort == "Int" {
				eq = l.p.reg.sNil(a)
			} else {
				eq = Eq(a, b)
			}
		} else if strings.HasPrefix(b.Sort, "Slice_") {
			eq = l.p.reg.sNil(b)
		} else {
			eq = Eq(a, b)
		}
		if x.Op == token.NEQ {
			eq = Not(eq)
		}
		return eq, types.Typ[types.Bool]
	case token.LSS, token.LEQ, token.GTR, token.GEQ:
		if a.Sort == "Real" && b.Sort == "Int" {
			b = App("to_real", "Real", b)
		}
		if b.Sort == "Real" && a.Sort == "Int" {
			a = App("to_real", "Real", a)
		}
		if a.Sort == "Str" {
			l.p.reg.Fun("strless", []string{"Str", "Str"}, "Bool")
			switch x.Op {
			case token.LSS:
				return App("strless", "Bool", a, b), types.Typ[types.Bool]
			case token.GTR:
				return App("strless", "Bool", b, a), types.Typ[types.Bool]
			case token.LEQ:
				return Not(App("strless", "Bool", b, a)), types.Typ[types.Bool]
			default:
				return Not(App("strless", "Bool", a, b)), types.Typ[types.Bool]
			}
		}
		op := map[token.Token]string{token.LSS: "<", token.LEQ: "<=", token.GTR: ">", token.GEQ: ">="}[x.Op]
		return App(op, "Bool", a, b), types.Typ[types.Bool]
	}
	if rt == nil {
		rt = ot
	}
	if a.Sort == "Str" && x.Op == token.ADD {
		l.p.reg.Fun("strcat", []string{"Str", "Str"}, "Str")
		r := App("strcat", "Str", a, b)
		l.assume(Eq(App("strlen", "Int", r), Add(App("strlen", "Int", a), App("strlen", "Int", b))))
		return r, rt
	}
	if a.Sort == "Real" || b.Sort == "Real" {
		if a.Sort == "Int" {
			a = App("to_real", "Real", a)
		}
		if b.Sort == "Int" {
			b = App("to_real", "Real", b)
		}
		op := map[token.Token]string{token.ADD: "+", token.SUB: "-", token.MUL: "*", token.QUO: "/"}[x.Op]
		if op == "" {
			l.unsupported(x, "float op")
			return l.freshVal(rt), rt
		}
		l.note("A-float: floating point arithmetic treated as real arithmetic")
		return App(op, "Real", a, b), rt
	}
	return l.intBinop(x.Op, a, b, rt, x), rt
}

func isUntyped(t types.Type) bool {
	if t == nil {
		return true
	}
	b, ok := t.(*types.Basic)
	return ok && b.Info()&types.IsUntyped != 0
}
func isUntypedNil(t types.Type) bool {
	b, ok := t.(*types.Basic)
	return ok && b.Kind() == types.UntypedNil
}

func litInt(t *Term) (*big.Int, bool) {
	if t.Op != "lit" || t.Sort != "Int" {
		return nil, false
	}
	s := t.Name
	neg := false
	if strings.HasPrefix(s, "(- ") {
		neg = true
		s = strings.TrimSuffix(strings.TrimPrefix(s, "(- "), ")")
	}
	bi, ok := new(big.Int).SetString(s, 10)
	if !ok {
		return nil, false
	}
	if neg {
		bi.Neg(bi)
	}
	return bi, true
}

func (l *Lowerer) intBinop(op token.Token, a, b *Term, rt types.Type, node ast.Node) *Term {
	switch op {
	case token.ADD:
		return l.wrap(App("+", "Int", a, b), rt)
	case token.SUB:
		return l.wrap(App("-", "Int", a, b), rt)
	case token.MUL:
		return l.wrap(App("*", "Int", a, b), rt)
	case token.QUO:
		l.safety("div", l.exprText(node), node, Not(Eq(b, IntLit(0))))
		return l.wrap(App("tdiv", "Int", a, b), rt)
	case token.REM:
		l.safety("div", l.exprText(node), node, Not(Eq(b, IntLit(0))))
		r := App("trem", "Int", a, b)
		if _, lit := litInt(b); !lit && !l.spec && !hasBound(a) && !hasBound(b) {
			// the solvers do not derive the range of a remainder by a symbolic divisor (non-linear): state it
			savedGuard := l.guard
			l.guard = nil
			l.assume(Implies(And(Le(IntLit(0), a), Lt(IntLit(0), b)), And(Le(IntLit(0), r), Lt(r, b))))
			l.guard = savedGuard
		}
		return r
	case token.AND:
		// x & (2^k - 1) == x mod 2^k (two's complement, also for negative x)
		if m, ok := litInt(b); ok {
			if k := maskBits(m); k >= 0 {
				return App("mod", "Int", a, IntPow2(k))
			}
		}
		if m, ok := litInt(a); ok {
			if k := maskBits(m); k >= 0 {
				return App("mod", "Int", b, IntPow2(k))
			}
		}
		// single-bit test: x & 2^k == 2^k * bit_k(x) (two's complement, floor div/mod)
		for _, pr := range [][2]*Term{{a, b}, {b, a}} {
			if m, ok := litInt(pr[1]); ok && m.Sign() > 0 && m.BitLen() <= 63 {
				if new(big.Int).And(m, new(big.Int).Sub(m, big.NewInt(1))).Sign() == 0 {
					k := m.BitLen() - 1
					return App("*", "Int", IntPow2(k), App("mod", "Int", App("div", "Int", pr[0], IntPow2(k)), IntLit(2)))
				}
			}
		}
	case token.SHL:
		if m, ok := litInt(b); ok && m.IsInt64() && m.Int64() < 64 {
			return l.wrap(App("*", "Int", a, IntPow2(int(m.Int64()))), rt)
		}
	case token.SHR:
		if m, ok := litInt(b); ok && m.IsInt64() && m.Int64() < 64 {
			return App("div", "Int", a, IntPow2(int(m.Int64())))
		}
	}
	// uninterpreted bit operation with the result in the type's range
	name := "bitop." + op.String()
	name = strings.NewReplacer("&", "and", "|", "or", "^", "xor", "<<", "shl", ">>", "shr").Replace(name)
	l.p.reg.Fun(name, []string{"Int", "Int"}, "Int")
	r := App(name, "Int", a, b)
	if lo, hi, ok := intRange(rt); ok && !l.spec {
		l.assume(And(App("<=", "Bool", Lit(lo, "Int"), r), App("<=", "Bool", r, Lit(hi, "Int"))))
	}
	return r
}

func maskBits(m *big.Int) int {
	if m.Sign() <= 0 {
		return -1
	}
	x := new(big.Int).Add(m, big.NewInt(1))
	if x.BitLen() > 0 && new(big.Int).And(x, m).Sign() == 0 {
		return x.BitLen() - 1
	}
	return -1
}

func IntPow2(k int) *Term { return BigLit(new(big.Int).Lsh(big.NewInt(1), uint(k))) }

func (l *Lowerer) trIndex(x *ast.IndexExpr) (*Term, types.Type) {
	bt := l.typeOfExpr(x.X)
	switch u := bt.Underlying().(type) {
	case *types.Map:
		pl := l.placeOf(x)
		return l.load(pl), u.Elem()
	case *types.Slice:
		b, _ := l.tr(x.X)
		i, _ := l.tr(x.Index)
		l.safety("index", l.exprText(x), x, And(Le(IntLit(0), i), Lt(i, l.p.reg.sLen(b))))
		v := l.p.reg.sIndex(b, i)
		l.linkIdx(b, i, u.Elem())
		l.wfLoad(v, u.Elem())
		return v, u.Elem()
	case *types.Array:
		b, _ := l.tr(x.X)
		i, _ := l.tr(x.Index)
		l.safety("index", l.exprText(x), x, And(Le(IntLit(0), i), Lt(i, IntLit(u.Len()))))
		v := Select(b, i)
		l.wfLoad(v, u.Elem())
		return v, u.Elem()
	case *types.Basic: // string index
		s, _ := l.tr(x.X)
		i, _ := l.tr(x.Index)
		l.safety("index", l.exprText(x), x, And(Le(IntLit(0), i), Lt(i, App("strlen", "Int", s))))
		l.p.reg.Fun("strbyte", []string{"Str", "Int"}, "Int")
		v := App("strbyte", "Int", s, i)
		l.assume(And(Le(IntLit(0), v), Le(v, IntLit(255))))
		return v, types.Typ[types.Uint8]
	}
	l.unsupported(x, "index expression")
	t := l.typeOf(x)
	return l.freshVal(t), t
}

func (l *Lowerer) trSlice(x *ast.SliceExpr) (*Term, types.Type) {
	bt := l.typeOfExpr(x.X)
	b, _ := l.tr(x.X)
	var lo, hi *Term
	lo = IntLit(0)
	if x.Low != nil {
		lo, _ = l.tr(x.Low)
	}
	switch u := bt.Underlying().(type) {
	case *types.Slice:
		r := l.p.reg
		if x.High != nil {
			hi, _ = l.tr(x.High)
		} else {
			hi = r.sLen(b)
		}
		capT := r.sCap(b)
		if x.Max != nil {
			mx, _ := l.tr(x.Max)
			l.safety("slice", l.exprText(x), x, And(Le(IntLit(0), lo), Le(lo, hi), Le(hi, mx), Le(mx, capT)))
			capT = mx
		} else {
			l.safety("slice", l.exprText(x), x, And(Le(IntLit(0), lo), Le(lo, hi), Le(hi, capT)))
		}
		return r.sMk(b.Sort, r.sArr(b), Add(r.sOff(b), lo), Sub(hi, lo), Sub(capT, lo), tFalse), bt
	case *types.Basic: // string
		if x.High != nil {
			hi, _ = l.tr(x.High)
		} else {
			hi = App("strlen", "Int", b)
		}
		l.safety("slice", l.exprText(x), x, And(Le(IntLit(0), lo), Le(lo, hi), Le(hi, App("strlen", "Int", b))))
		l.p.reg.Fun("substr", []string{"Str", "Int", "Int"}, "Str")
		s := App("substr", "Str", b, lo, hi)
		l.assume(Eq(App("strlen", "Int", s), Sub(hi, lo)))
		return s, bt
	case *types.Array:
		if x.High != nil {
			hi, _ = l.tr(x.High)
		} else {
			hi = IntLit(u.Len())
		}
		l.safety("slice", l.exprText(x), x, And(Le(IntLit(0), lo), Le(lo, hi), Le(hi, IntLit(u.Len()))))
		ss := l.p.reg.SliceSort(l.p.sortOf(u.Elem()))
		return l.p.reg.sMk(ss, b, lo, Sub(hi, lo), Sub(IntLit(u.Len()), lo), tFalse), types.NewSlice(u.Elem())
	}
	l.unsupported(x, "slice expression")
	t := l.typeOf(x)
	return l.freshVal(t), t
}

func (l *Lowerer) trFuncLit(x *ast.FuncLit) (*Term, types.Type) {
	typ := l.typeOf(x)
	// a closure value: fresh reference; its possible effects are recorded as escaped
	r := l.alloc()
	if fi := l.p.litInfo[x]; fi != nil {
		l.recordEscape(fi)
		l.p.reg.Fun("closureid", []string{"Int"}, "Int")
	}
	return r, typ
}

// recordEscape notes variables and heap a closure may modify whenever it is invoked by unknown code.
func (l *Lowerer) recordEscape(fi *FuncInfo) {
	ms := l.p.modset(fi)
	for k := range ms {
		l.escapedHeap[k] = true
	}
	// captured locals assigned in the literal
	ast.Inspect(fi.Body, func(n ast.Node) bool {
		var lhs []ast.Expr
		switch s := n.(type) {
		case *ast.AssignStmt:
			lhs = s.Lhs
		case *ast.IncDecStmt:
			lhs = []ast.Expr{s.X}
		case *ast.RangeStmt:
			if s.Tok == token.ASSIGN {
				lhs = []ast.Expr{s.Key, s.Value}
			}
		}
		for _, e := range lhs {
			if e == nil {
				continue
			}
			root := e
			for {
				switch r := ast.Unparen(root).(type) {
				case *ast.IndexExpr:
					root = r.X
					continue
				case *ast.SelectorExpr:
					if st, _ := structOf(l.typeOf(r.X)); st != nil && !isPointer(l.typeOf(r.X)) {
						root = r.X
						continue
					}
				}
				break
			}
			if id, ok := ast.Unparen(root).(*ast.Ident); ok {
				if v, ok := l.info().ObjectOf(id).(*types.Var); ok && !v.IsField() {
					// captured if declared outside the literal
					if v.Pos() < fi.Lit.Pos() || v.Pos() > fi.Lit.End() {
						if v.Parent() != v.Pkg().Scope() {
							l.escaped[l.localVar(v)] = true
						}
					}
				}
			}
		}
		return true
	})
}
