package main

// Field correspondence of an encode/decode pair (second relational clause of C09): the token the encoder writes from
// a field (or from the length, a key or an element of a collection) is the token the decoder stores into that same
// field (length, key, element). Both sides are reduced to access paths over the receiver ("$"):
//   $.F   len($.F)   key($.M)   elem($.S)   elem(elem($.M)).F ...
// encode: the expression written, through conversions, arithmetic with constants, range variables and local
// definitions; decode: the lvalue read into, or - for a temporary - the place the temporary is stored to afterwards
// (assignment, conversion, make(T, n), append, map insertion, composite literal field).
// A token whose path cannot be determined on either side is skipped (counted), never reported.

import (
	"go/ast"
	"go/token"
	"go/types"
	"sort"
	"strings"
)

type wPaths struct {
	w       *wFunc
	ready   bool
	defs    map[types.Object]ast.Expr // encode: x := expr
	ranges  map[types.Object]string   // encode/decode: range variables -> path
	flows   map[types.Object][]string // decode: local -> places it is stored to
	flowPos map[types.Object][]token.Pos // position of the statement of each flow
	assigns map[types.Object][]token.Pos // positions at which a local is assigned
	curPos  token.Pos
	busy    map[types.Object]bool
	rangeOf map[types.Object]ast.Expr
	rangeK  map[types.Object]string // "key" / "elem" / "idx"
	refs    map[string]types.Object
	refName map[types.Object]string
}

func (w *wFunc) paths() *wPaths {
	if w.wp != nil {
		return w.wp
	}
	wp := &wPaths{w: w, defs: map[types.Object]ast.Expr{}, ranges: map[types.Object]string{}, flows: map[types.Object][]string{}, flowPos: map[types.Object][]token.Pos{}, assigns: map[types.Object][]token.Pos{},
		busy: map[types.Object]bool{}, rangeOf: map[types.Object]ast.Expr{}, rangeK: map[types.Object]string{}}
	w.wp = wp
	info := w.info
	multi := map[types.Object]int{}
	ast.Inspect(w.fi.Body, func(n ast.Node) bool {
		switch x := n.(type) {
		case *ast.RangeStmt:
			_, isMap := info.TypeOf(x.X).Underlying().(*types.Map)
			if id, ok := x.Key.(*ast.Ident); ok && id.Name != "_" {
				if o := info.ObjectOf(id); o != nil {
					wp.rangeOf[o] = x.X
					if isMap {
						wp.rangeK[o] = "key"
					} else {
						wp.rangeK[o] = "idx"
					}
				}
			}
			if id, ok := x.Value.(*ast.Ident); ok && id.Name != "_" {
				if o := info.ObjectOf(id); o != nil {
					wp.rangeOf[o] = x.X
					wp.rangeK[o] = "elem"
				}
			}
		case *ast.AssignStmt:
			if len(x.Lhs) == 1 && len(x.Rhs) == 1 {
				if id, ok := x.Lhs[0].(*ast.Ident); ok {
					if o := info.ObjectOf(id); o != nil {
						multi[o]++
						wp.defs[o] = x.Rhs[0]
					}
				}
			}
		}
		return true
	})
	for o, c := range multi {
		if c > 1 {
			delete(wp.defs, o)
		}
	}
	if w.side == "decode" {
		wp.collectFlows()
	}
	return wp
}

// ---- encode side: the set of access paths an expression is computed from

func (wp *wPaths) srcPaths(e ast.Expr, depth int) (paths []string, ok bool) {
	set := map[string]bool{}
	ok = wp.src(e, set, depth)
	for p := range set {
		paths = append(paths, p)
	}
	sort.Strings(paths)
	return paths, ok
}

func (wp *wPaths) src(e ast.Expr, set map[string]bool, depth int) bool {
	if depth > 8 {
		return false
	}
	info := wp.w.info
	e = ast.Unparen(e)
	if tv, ok := info.Types[e]; ok && tv.Value != nil {
		return true // constant
	}
	switch x := e.(type) {
	case *ast.BasicLit:
		return true
	case *ast.Ident, *ast.SelectorExpr, *ast.IndexExpr, *ast.StarExpr:
		if p, ok := wp.accessPath(e, depth); ok {
			if p != "" {
				set[p] = true
			}
			return true
		}
		return false
	case *ast.UnaryExpr:
		return wp.src(x.X, set, depth)
	case *ast.BinaryExpr:
		switch x.Op {
		case token.EQL, token.NEQ, token.LSS, token.LEQ, token.GTR, token.GEQ, token.LAND, token.LOR:
			return false // a truth value computed from fields: not a copy of a field
		}
		return wp.src(x.X, set, depth) && wp.src(x.Y, set, depth)
	case *ast.CallExpr:
		if tv, ok := info.Types[x.Fun]; ok && tv.IsType() && len(x.Args) == 1 {
			return wp.src(x.Args[0], set, depth)
		}
		if id, ok := x.Fun.(*ast.Ident); ok && id.Name == "len" && len(x.Args) == 1 {
			if p, ok := wp.accessPath(x.Args[0], depth); ok && p != "" {
				set["len("+p+")"] = true
				return true
			}
			return false
		}
		if sel, ok := x.Fun.(*ast.SelectorExpr); ok && len(x.Args) == 0 {
			// a method of a field value (t.UnixNano(), d.Milliseconds()): computed from that value; a method of
			// the whole message (b.computeAttributes()) is computed from several fields: no single source
			if id, ok := ast.Unparen(sel.X).(*ast.Ident); ok && wp.w.recv != nil && info.ObjectOf(id) == wp.w.recv {
				return false
			}
			return wp.src(sel.X, set, depth)
		}
		return false
	}
	return false
}

// accessPath: $.F / elem(P) / key(P) for an expression rooted at the receiver, a range variable or a local
// definition; "" for package-level values.
func (wp *wPaths) accessPath(e ast.Expr, depth int) (string, bool) {
	if depth > 8 {
		return "", false
	}
	info := wp.w.info
	e = ast.Unparen(e)
	switch x := e.(type) {
	case *ast.Ident:
		o := info.ObjectOf(x)
		if o == nil {
			return "", false
		}
		if wp.w.recv != nil && o == wp.w.recv {
			return "$", true
		}
		if o.Parent() == o.Pkg().Scope() || o.Pkg() != wp.w.fi.Pkg.Types {
			return "", true
		}
		if rx, ok := wp.rangeOf[o]; ok {
			base, ok := wp.accessPath(rx, depth+1)
			if !ok || base == "" {
				return "", false
			}
			switch wp.rangeK[o] {
			case "key":
				return "key(" + base + ")", true
			case "elem":
				return "elem(" + base + ")", true
			}
			return "", false // an index is not a value of the message
		}
		if wp.w.side == "decode" {
			// a local of the decoder stands for the places it is stored to
			if fl := wp.flowsOf(o); len(fl) == 1 {
				return fl[0], true
			}
			return "", false
		}
		if d, ok := wp.defs[o]; ok {
			return wp.accessPath(d, depth+1)
		}
		return "", false
	case *ast.SelectorExpr:
		if id, ok := x.X.(*ast.Ident); ok {
			if _, isPkg := info.ObjectOf(id).(*types.PkgName); isPkg {
				return "", true
			}
		}
		base, ok := wp.accessPath(x.X, depth+1)
		if !ok || base == "" {
			return "", false
		}
		// promoted fields of embedded structs are written with their full path
		if selInfo, ok := info.Selections[x]; ok && len(selInfo.Index()) > 1 {
			t := selInfo.Recv()
			for _, idx := range selInfo.Index()[:len(selInfo.Index())-1] {
				if p, ok := t.(*types.Pointer); ok {
					t = p.Elem()
				}
				st, ok := t.Underlying().(*types.Struct)
				if !ok {
					break
				}
				base += "." + st.Field(idx).Name()
				t = st.Field(idx).Type()
			}
		}
		return base + "." + x.Sel.Name, true
	case *ast.IndexExpr:
		base, ok := wp.accessPath(x.X, depth+1)
		if !ok || base == "" {
			return "", false
		}
		return "elem(" + base + ")", true
	case *ast.StarExpr:
		return wp.accessPath(x.X, depth+1)
	case *ast.UnaryExpr:
		if x.Op == token.AND {
			return wp.accessPath(x.X, depth+1)
		}
	case *ast.CallExpr:
		if tv, ok := info.Types[x.Fun]; ok && tv.IsType() && len(x.Args) == 1 {
			return wp.accessPath(x.Args[0], depth+1)
		}
	}
	return "", false
}

// ---- decode side: where a local ends up

func (wp *wPaths) addFlow(o types.Object, place string) {
	if o == nil || place == "" {
		return
	}
	for i, p := range wp.flows[o] {
		if p == place && wp.flowPos[o][i] == wp.curPos {
			return
		}
	}
	wp.flows[o] = append(wp.flows[o], place)
	wp.flowPos[o] = append(wp.flowPos[o], wp.curPos)
}

// localsIn: the locals an expression copies its value from (through conversions, &, *, arithmetic with constants).
func (wp *wPaths) localsIn(e ast.Expr, out *[]types.Object) bool {
	info := wp.w.info
	e = ast.Unparen(e)
	if tv, ok := info.Types[e]; ok && tv.Value != nil {
		return true
	}
	switch x := e.(type) {
	case *ast.Ident:
		o := info.ObjectOf(x)
		if v, ok := o.(*types.Var); ok && o.Parent() != o.Pkg().Scope() && o != wp.w.recv && !v.IsField() {
			*out = append(*out, o)
			return true
		}
		return x.Name == "nil" || x.Name == "true" || x.Name == "false"
	case *ast.UnaryExpr:
		return wp.localsIn(x.X, out)
	case *ast.StarExpr:
		return wp.localsIn(x.X, out)
	case *ast.BinaryExpr:
		switch x.Op {
		case token.EQL, token.NEQ, token.LSS, token.LEQ, token.GTR, token.GEQ, token.LAND, token.LOR:
			return false
		}
		return wp.localsIn(x.X, out) && wp.localsIn(x.Y, out)
	case *ast.CallExpr:
		if tv, ok := info.Types[x.Fun]; ok && tv.IsType() && len(x.Args) == 1 {
			return wp.localsIn(x.Args[0], out)
		}
		// time.Unix(0, ms*int64(time.Millisecond)) and the like: computed from its arguments
		if sel, ok := x.Fun.(*ast.SelectorExpr); ok {
			if id, ok := sel.X.(*ast.Ident); ok {
				if _, isPkg := info.ObjectOf(id).(*types.PkgName); isPkg {
					all := true
					for _, a := range x.Args {
						all = wp.localsIn(a, out) && all
					}
					return all
				}
			}
		}
	}
	return false
}

// lvaluePath: the place an lvalue of the decoder denotes; locals are left symbolic as "@<obj>" and resolved later.
func (wp *wPaths) lvaluePath(e ast.Expr) (string, bool) {
	info := wp.w.info
	e = ast.Unparen(e)
	switch x := e.(type) {
	case *ast.Ident:
		o := info.ObjectOf(x)
		if o == nil {
			return "", false
		}
		if wp.w.recv != nil && o == wp.w.recv {
			return "$", true
		}
		if _, ok := o.(*types.Var); ok && o.Parent() != o.Pkg().Scope() {
			return wp.localRef(o), true
		}
		return "", false
	case *ast.SelectorExpr:
		base, ok := wp.lvaluePath(x.X)
		if !ok {
			return "", false
		}
		if selInfo, ok := info.Selections[x]; ok && len(selInfo.Index()) > 1 {
			t := selInfo.Recv()
			for _, idx := range selInfo.Index()[:len(selInfo.Index())-1] {
				if p, ok := t.(*types.Pointer); ok {
					t = p.Elem()
				}
				st, ok := t.Underlying().(*types.Struct)
				if !ok {
					break
				}
				base += "." + st.Field(idx).Name()
				t = st.Field(idx).Type()
			}
		}
		return base + "." + x.Sel.Name, true
	case *ast.IndexExpr:
		base, ok := wp.lvaluePath(x.X)
		if !ok {
			return "", false
		}
		return "elem(" + base + ")", true
	case *ast.StarExpr:
		return wp.lvaluePath(x.X)
	case *ast.UnaryExpr:
		if x.Op == token.AND {
			return wp.lvaluePath(x.X)
		}
	}
	return "", false
}

func (wp *wPaths) localRef(o types.Object) string {
	if wp.refs == nil {
		wp.refs = map[string]types.Object{}
		wp.refName = map[types.Object]string{}
	}
	if n, ok := wp.refName[o]; ok {
		return n
	}
	n := "@" + o.Name() + "#" + itoa(len(wp.refName))
	wp.refName[o] = n
	wp.refs[n] = o
	return n
}

func itoa(i int) string {
	if i == 0 {
		return "0"
	}
	s := ""
	for i > 0 {
		s = string(rune('0'+i%10)) + s
		i /= 10
	}
	return s
}

func (wp *wPaths) collectFlows() {
	info := wp.w.info
	store := func(lhs ast.Expr, rhs ast.Expr) {
		place, ok := wp.lvaluePath(lhs)
		if !ok {
			return
		}
		// map insertion: the index is the key
		if ix, ok := ast.Unparen(lhs).(*ast.IndexExpr); ok {
			if _, isMap := info.TypeOf(ix.X).Underlying().(*types.Map); isMap {
				if base, ok := wp.lvaluePath(ix.X); ok {
					var ks []types.Object
					if wp.localsIn(ix.Index, &ks) {
						for _, k := range ks {
							wp.addFlow(k, "key("+base+")")
						}
					}
				}
			}
		}
		rhs = ast.Unparen(rhs)
		if call, ok := rhs.(*ast.CallExpr); ok {
			if id, ok := call.Fun.(*ast.Ident); ok {
				switch id.Name {
				case "make":
					if len(call.Args) >= 2 {
						var ns []types.Object
						if wp.localsIn(call.Args[1], &ns) {
							for _, n := range ns {
								wp.addFlow(n, "len("+place+")")
							}
						}
					}
					return
				case "append":
					for _, a := range call.Args[1:] {
						wp.storeValue(a, "elem("+place+")")
					}
					return
				case "new":
					return
				}
			}
		}
		wp.storeValue(rhs, place)
	}
	ast.Inspect(wp.w.fi.Body, func(n ast.Node) bool {
		switch x := n.(type) {
		case *ast.AssignStmt:
			wp.curPos = x.Pos()
			for _, l := range x.Lhs {
				if id, ok := l.(*ast.Ident); ok {
					if o := info.ObjectOf(id); o != nil {
						wp.assigns[o] = append(wp.assigns[o], x.Pos())
					}
				}
			}
			if len(x.Lhs) == len(x.Rhs) {
				for i := range x.Lhs {
					if call, ok := ast.Unparen(x.Rhs[i]).(*ast.CallExpr); ok {
						if _, is := wp.w.coderCallKind(call); is {
							continue
						}
					}
					store(x.Lhs[i], x.Rhs[i])
				}
			}
		case *ast.ValueSpec:
			wp.curPos = x.Pos()
			for i, name := range x.Names {
				if i < len(x.Values) {
					store(name, x.Values[i])
				}
			}
		}
		return true
	})
}

// storeValue: the value expression ends up at place (composite literals field by field).
func (wp *wPaths) storeValue(v ast.Expr, place string) {
	v = ast.Unparen(v)
	if u, ok := v.(*ast.UnaryExpr); ok && u.Op == token.AND {
		v = ast.Unparen(u.X)
	}
	if cl, ok := v.(*ast.CompositeLit); ok {
		for _, el := range cl.Elts {
			if kv, ok := el.(*ast.KeyValueExpr); ok {
				if k, ok := kv.Key.(*ast.Ident); ok {
					wp.storeValue(kv.Value, place+"."+k.Name)
				}
			}
		}
		return
	}
	var ls []types.Object
	if wp.localsIn(v, &ls) {
		for _, l := range ls {
			wp.addFlow(l, place)
		}
	}
}

// flowsOf: the resolved places of a local (symbolic local references replaced by the places of those locals).
func (wp *wPaths) flowsOf(o types.Object) []string {
	return wp.flowsOfAt(o, token.NoPos)
}

// flowsOfAt: the places the value a local holds after the assignment at position `at` is stored to, i.e. the
// stores between that assignment and the next assignment of the local (NoPos: all stores).
func (wp *wPaths) flowsOfAt(o types.Object, at token.Pos) []string {
	if wp.busy[o] {
		return nil
	}
	wp.busy[o] = true
	defer delete(wp.busy, o)
	until := token.Pos(1 << 40)
	if at != token.NoPos {
		for _, a := range wp.assigns[o] {
			if a > at && a < until {
				until = a
			}
		}
	}
	seen := map[string]bool{}
	var out []string
	for i, pl := range wp.flows[o] {
		if at != token.NoPos && !(wp.flowPos[o][i] > at && wp.flowPos[o][i] < until) {
			continue
		}
		for _, r := range wp.resolve(pl) {
			if !seen[r] {
				seen[r] = true
				out = append(out, r)
			}
		}
	}
	// a range variable over a decoded collection (for i := range r.X { r.X[i], err = ... }) has no place of its own
	sort.Strings(out)
	return out
}

// resolve: replaces the innermost local reference of a place by the places of that local.
func (wp *wPaths) resolve(place string) []string {
	i := strings.Index(place, "@")
	if i < 0 {
		return []string{place}
	}
	j := i
	for j < len(place) && place[j] != ')' && place[j] != '.' {
		j++
	}
	ref := place[i:j]
	o := wp.refs[ref]
	if o == nil {
		return nil
	}
	var out []string
	for _, sub := range wp.flowsOf(o) {
		out = append(out, wp.resolve(place[:i]+sub+place[j:])...)
	}
	return out
}

// sinkPath: the place a decoder token (read at position at) is stored to.
func (wp *wPaths) sinkPath(e ast.Expr, at token.Pos) (string, bool) {
	if e == nil {
		return "", false
	}
	if id, ok := ast.Unparen(e).(*ast.Ident); ok {
		if id.Name == "_" {
			return "", false
		}
		if o := wp.w.info.ObjectOf(id); o != nil && o != wp.w.recv {
			if _, isVar := o.(*types.Var); isVar && o.Parent() != o.Pkg().Scope() {
				// the statement that reads the token assigns the local: stores after it, before the next assignment
				stmtPos := token.NoPos
				for _, a := range wp.assigns[o] {
					if a <= at && a > stmtPos {
						stmtPos = a
					}
				}
				if stmtPos == token.NoPos {
					stmtPos = at
				}
				fl := wp.flowsOfAt(o, stmtPos)
				if len(fl) != 1 || strings.Contains(fl[0], "@") {
					return "", false
				}
				return fl[0], true
			}
		}
	}
	place, ok := wp.lvaluePath(e)
	if !ok {
		return "", false
	}
	rs := wp.resolve(place)
	if len(rs) != 1 || strings.Contains(rs[0], "@") {
		return "", false
	}
	return rs[0], true
}

// coderCallKind: whether the call is a coder primitive or a nested encode/decode (without building a node).
func (w *wFunc) coderCallKind(call *ast.CallExpr) (string, bool) {
	sel, ok := call.Fun.(*ast.SelectorExpr)
	if !ok {
		return "", false
	}
	if id, ok := sel.X.(*ast.Ident); ok && w.isCoder(w.info.Uses[id]) {
		return sel.Sel.Name, true
	}
	if (sel.Sel.Name == "encode" || sel.Sel.Name == "decode") && len(call.Args) >= 1 {
		if id, ok := ast.Unparen(call.Args[0]).(*ast.Ident); ok && w.isCoder(w.info.Uses[id]) {
			return sel.Sel.Name, true
		}
	}
	return "", false
}

// fieldPair: compares the field a matched token pair is written from and read into.
func (pr *wirePair) fieldPair(p *Prog, x, y *wNode, where string) {
	if !pr.fieldsOn {
		return
	}
	if x.Src == nil || y.Src == nil {
		pr.fieldSkipped++
		return
	}
	var ePaths []string
	var okE bool
	if x.K == wSub {
		var ep string
		ep, okE = pr.enc.paths().accessPath(x.Src, 0)
		if ep != "" {
			ePaths = []string{ep}
		}
	} else {
		ePaths, okE = pr.enc.paths().srcPaths(x.Src, 0)
	}
	// a token the decoder reads and throws away although the encoder writes a field of the message there
	if id, ok := ast.Unparen(y.Src).(*ast.Ident); ok && id.Name == "_" && y.K == wTok && okE && len(ePaths) == 1 && strings.HasPrefix(ePaths[0], "$.") && x.Wrap == "" {
		pr.fieldCompared++
		pr.fieldIssues = append(pr.fieldIssues, where+": encode writes "+ePaths[0]+" ("+p.posShort(x.Pos)+") where decode reads the token and discards it ("+p.posShort(y.Pos)+")")
		return
	}
	dPath, okD := pr.dec.paths().sinkPath(y.Src, y.Pos)
	if !okE || !okD || len(ePaths) != 1 || dPath == "" {
		pr.fieldSkipped++
		return
	}
	ePath := ePaths[0]
	wrap := func(w, p string) string {
		if w == "" || strings.HasPrefix(p, w+"(") && w == "len" {
			return p
		}
		return w + "(" + p + ")"
	}
	ePath, dPath = wrap(x.Wrap, ePath), wrap(y.Wrap, dPath)
	pr.fieldCompared++
	if ePath != dPath {
		pr.fieldIssues = append(pr.fieldIssues, where+": encode writes "+ePath+" ("+p.posShort(x.Pos)+") where decode stores the token into "+dPath+" ("+p.posShort(y.Pos)+")")
	}
}

// countLink: the loop follows the length token of the collection it iterates (encode), and runs as often as the
// length token read before it says (decode).
func (pr *wirePair) countLink(p *Prog, ePrev, eRep, dPrev, dRep *wNode, where string) {
	if !pr.fieldsOn || eRep.Range == nil || ePrev.K != wTok || ePrev.Src == nil {
		return
	}
	if strings.HasPrefix(eRep.Count, "range ") {
		rp, ok := pr.enc.paths().accessPath(eRep.Range, 0)
		lp, ok2 := pr.enc.paths().srcPaths(ePrev.Src, 0)
		if ok && ok2 && rp != "" && len(lp) == 1 && strings.HasPrefix(lp[0], "len(") && ePrev.Wrap == "" {
			pr.fieldCompared++
			if lp[0] != "len("+rp+")" {
				pr.fieldIssues = append(pr.fieldIssues, where+": encode writes "+lp[0]+" ("+p.posShort(ePrev.Pos)+") as the length of the array whose elements are those of "+rp+" ("+p.posShort(eRep.Pos)+")")
			}
		}
	}
	// decode: i < n where n is the variable the preceding length token was read into
	if dRep.Range != nil && dPrev.K == wTok && dPrev.Sink != nil && !strings.HasPrefix(dRep.Count, "range ") {
		if id, ok := ast.Unparen(dRep.Range).(*ast.Ident); ok {
			if o := pr.dec.info.ObjectOf(id); o != nil {
				pr.fieldCompared++
				if o != dPrev.Sink {
					pr.fieldIssues = append(pr.fieldIssues, where+": decode loops "+id.Name+" times ("+p.posShort(dRep.Pos)+") after reading the array length into "+dPrev.Sink.Name()+" ("+p.posShort(dPrev.Pos)+")")
				}
			}
		}
	}
}
