package main

import (
	"fmt"
	"math/big"
	"sort"
	"strings"
)

// Term is an SMT term over IVL variables. Leaves are variables (Op "var") or
// literals (Op "lit"); everything else is an application of an SMT function.
type Term struct {
	Op   string
	Name string
	Args []*Term
	Sort string
}

func V(name, sort string) *Term { return &Term{Op: "var", Name: name, Sort: sort} }
func Lit(text, sort string) *Term {
	return &Term{Op: "lit", Name: text, Sort: sort}
}
func App(op, sort string, args ...*Term) *Term {
	for _, a := range args {
		if a == nil {
			panic("nil arg to " + op)
		}
	}
	return &Term{Op: op, Sort: sort, Args: args}
}

var (
	tTrue  = Lit("true", "Bool")
	tFalse = Lit("false", "Bool")
)

func IntLit(n int64) *Term { return BigLit(big.NewInt(n)) }
func BigLit(n *big.Int) *Term {
	if n.Sign() < 0 {
		return Lit("(- "+new(big.Int).Neg(n).String()+")", "Int")
	}
	return Lit(n.String(), "Int")
}

func isLit(t *Term, s string) bool { return t.Op == "lit" && t.Name == s }

func And(ts ...*Term) *Term {
	var out []*Term
	for _, t := range ts {
		if t == nil || isLit(t, "true") {
			continue
		}
		if isLit(t, "false") {
			return tFalse
		}
		if t.Op == "and" {
			out = append(out, t.Args...)
		} else {
			out = append(out, t)
		}
	}
	if len(out) == 0 {
		return tTrue
	}
	if len(out) == 1 {
		return out[0]
	}
	return App("and", "Bool", out...)
}
func Or(ts ...*Term) *Term {
	var out []*Term
	for _, t := range ts {
		if t == nil || isLit(t, "false") {
			continue
		}
		if isLit(t, "true") {
			return tTrue
		}
		out = append(out, t)
	}
	if len(out) == 0 {
		return tFalse
	}
	if len(out) == 1 {
		return out[0]
	}
	return App("or", "Bool", out...)
}
func Not(t *Term) *Term {
	if isLit(t, "true") {
		return tFalse
	}
	if isLit(t, "false") {
		return tTrue
	}
	if t.Op == "not" {
		return t.Args[0]
	}
	return App("not", "Bool", t)
}
func Implies(a, b *Term) *Term {
	if isLit(a, "true") {
		return b
	}
	if isLit(a, "false") || isLit(b, "true") {
		return tTrue
	}
	return App("=>", "Bool", a, b)
}
func Eq(a, b *Term) *Term {
	if a.Sort != b.Sort {
		panic(fmt.Sprintf("Eq sort mismatch: %s:%s vs %s:%s", a.String(), a.Sort, b.String(), b.Sort))
	}
	return App("=", "Bool", a, b)
}
func Ite(c, a, b *Term) *Term {
	if isLit(c, "true") {
		return a
	}
	if isLit(c, "false") {
		return b
	}
	return App("ite", a.Sort, c, a, b)
}
func Select(arr, idx *Term) *Term {
	return App("select", arrayElemSort(arr.Sort), arr, idx)
}
func Store(arr, idx, v *Term) *Term { return App("store", arr.Sort, arr, idx, v) }
func Add(a, b *Term) *Term {
	if isLit(a, "0") {
		return b
	}
	if isLit(b, "0") {
		return a
	}
	return App("+", "Int", a, b)
}
func Sub(a, b *Term) *Term          { return App("-", "Int", a, b) }
func Le(a, b *Term) *Term           { return App("<=", "Bool", a, b) }
func Lt(a, b *Term) *Term           { return App("<", "Bool", a, b) }

// arrayElemSort extracts E from "(Array K E)".
func arrayElemSort(s string) string {
	parts := splitSexp(s)
	if len(parts) == 3 && parts[0] == "Array" {
		return parts[2]
	}
	panic("not an array sort: " + s)
}
func arrayKeySort(s string) string {
	parts := splitSexp(s)
	if len(parts) == 3 && parts[0] == "Array" {
		return parts[1]
	}
	panic("not an array sort: " + s)
}
func arraySort(k, e string) string { return "(Array " + k + " " + e + ")" }

// splitSexp splits "(A B (C D))" into top-level items [A, B, (C D)].
func splitSexp(s string) []string {
	s = strings.TrimSpace(s)
	if !strings.HasPrefix(s, "(") {
		return []string{s}
	}
	s = s[1 : len(s)-1]
	var out []string
	depth := 0
	start := -1
	for i, c := range s {
		switch {
		case c == '(':
			if depth == 0 && start < 0 {
				start = i
			}
			depth++
		case c == ')':
			depth--
			if depth == 0 {
				out = append(out, s[start:i+1])
				start = -1
			}
		case c == ' ':
			if depth == 0 && start >= 0 {
				out = append(out, s[start:i])
				start = -1
			}
		default:
			if start < 0 {
				start = i
			}
		}
	}
	if start >= 0 {
		out = append(out, s[start:])
	}
	return out
}

// smtName quotes a symbol if needed.
func smtName(n string) string {
	for _, c := range n {
		if !(c >= 'a' && c <= 'z' || c >= 'A' && c <= 'Z' || c >= '0' && c <= '9' || c == '_' || c == '.' || c == '$' || c == '@' || c == '#' || c == '!') {
			return "|" + n + "|"
		}
	}
	return n
}

// Print renders the term; inc maps a variable name to its incarnation symbol.
func (t *Term) Print(sb *strings.Builder, inc func(string) string) {
	switch t.Op {
	case "var":
		sb.WriteString(smtName(inc(t.Name)))
	case "lit":
		sb.WriteString(t.Name)
	case "forall", "exists":
		// Args[0..n-1] bound vars (Op "bound"), last = body
		sb.WriteString("(" + t.Op + " (")
		for _, b := range t.Args[:len(t.Args)-1] {
			sb.WriteString("(" + smtName(b.Name) + " " + b.Sort + ")")
		}
		sb.WriteString(") ")
		t.Args[len(t.Args)-1].Print(sb, inc)
		sb.WriteString(")")
	case "bound":
		sb.WriteString(smtName(t.Name))
	default:
		if len(t.Args) == 0 {
			sb.WriteString(t.Op)
			return
		}
		sb.WriteString("(")
		sb.WriteString(t.Op)
		for _, a := range t.Args {
			sb.WriteString(" ")
			a.Print(sb, inc)
		}
		sb.WriteString(")")
	}
}

func (t *Term) String() string {
	var sb strings.Builder
	t.Print(&sb, func(s string) string { return s })
	return sb.String()
}

// Vars collects the free IVL variables of t into set.
func (t *Term) Vars(set map[string]string) {
	if t.Op == "var" {
		set[t.Name] = t.Sort
		return
	}
	for _, a := range t.Args {
		a.Vars(set)
	}
}

// Funs collects uninterpreted function symbols used (Op names starting with "u.").
func (t *Term) Funs(set map[string]bool) {
	if t.Op != "var" && t.Op != "lit" && t.Op != "bound" {
		set[t.Op] = true
	}
	for _, a := range t.Args {
		a.Funs(set)
	}
}

// Subst replaces variables by terms.
func (t *Term) Subst(m map[string]*Term) *Term {
	if len(m) == 0 {
		return t
	}
	switch t.Op {
	case "var":
		if r, ok := m[t.Name]; ok {
			return r
		}
		return t
	case "lit", "bound":
		return t
	}
	changed := false
	args := make([]*Term, len(t.Args))
	for i, a := range t.Args {
		args[i] = a.Subst(m)
		if args[i] != a {
			changed = true
		}
	}
	if !changed {
		return t
	}
	return &Term{Op: t.Op, Name: t.Name, Args: args, Sort: t.Sort}
}

// RenameVars renames variables via f (used for old() snapshots).
func (t *Term) RenameVars(f func(string) string) *Term {
	switch t.Op {
	case "var":
		n := f(t.Name)
		if n == t.Name {
			return t
		}
		return V(n, t.Sort)
	case "lit", "bound":
		return t
	}
	changed := false
	args := make([]*Term, len(t.Args))
	for i, a := range t.Args {
		args[i] = a.RenameVars(f)
		if args[i] != a {
			changed = true
		}
	}
	if !changed {
		return t
	}
	return &Term{Op: t.Op, Name: t.Name, Args: args, Sort: t.Sort}
}

// ---------------------------------------------------------------------------
// Sort registry: datatypes for slices and value structs, declared on demand.

type SortReg struct {
	decls map[string]string // sort name -> declaration text
	order []string
	funs  map[string]string // uninterpreted function name -> declaration
	forder []string
	axioms map[string][]string // function name -> axioms emitted when the function is used
}

func NewSortReg() *SortReg {
	return &SortReg{decls: map[string]string{}, funs: map[string]string{}, axioms: map[string][]string{}}
}

func (r *SortReg) SliceSort(elem string) string {
	name := "Slice_" + sortIdent(elem)
	if _, ok := r.decls[name]; !ok {
		r.decls[name] = fmt.Sprintf("(declare-datatypes ((%s 0)) (((mk_%s (arr_%s (Array Int %s)) (off_%s Int) (len_%s Int) (cap_%s Int) (nil_%s Bool)))))",
			name, name, name, elem, name, name, name, name)
		r.order = append(r.order, name)
	}
	return name
}

func (r *SortReg) DeclSort(name string) {
	if _, ok := r.decls[name]; !ok {
		r.decls[name] = fmt.Sprintf("(declare-sort %s 0)", name)
		r.order = append(r.order, name)
	}
}

func (r *SortReg) StructSort(name string, fields []string, sorts []string) string {
	sn := "S_" + sortIdent(name)
	if _, ok := r.decls[sn]; !ok {
		var sb strings.Builder
		fmt.Fprintf(&sb, "(declare-datatypes ((%s 0)) (((mk_%s", sn, sn)
		for i, f := range fields {
			fmt.Fprintf(&sb, " (%s %s)", structAccessor(sn, f), sorts[i])
		}
		sb.WriteString("))))")
		r.decls[sn] = sb.String()
		r.order = append(r.order, sn)
	}
	return sn
}

func structAccessor(sortName, field string) string { return "f_" + sortName + "_" + field }

func (r *SortReg) Fun(name string, argSorts []string, res string) {
	if _, ok := r.funs[name]; !ok {
		r.funs[name] = fmt.Sprintf("(declare-fun %s (%s) %s)", smtName(name), strings.Join(argSorts, " "), res)
		r.forder = append(r.forder, name)
	}
}

func (r *SortReg) Axiom(fun string, ax string) {
	for _, a := range r.axioms[fun] {
		if a == ax {
			return
		}
	}
	r.axioms[fun] = append(r.axioms[fun], ax)
}

func sortIdent(s string) string {
	s = strings.ReplaceAll(s, "(", "")
	s = strings.ReplaceAll(s, ")", "")
	s = strings.ReplaceAll(s, " ", "_")
	return s
}

// slice helpers
// accessors simplify on explicit constructors, so that slices built in the function have literal shape
func (r *SortReg) sArr(s *Term) *Term {
	if s.Op == "mk_"+s.Sort {
		return s.Args[0]
	}
	return App("arr_"+s.Sort, arraySort("Int", r.sliceElem(s.Sort)), s)
}
func (r *SortReg) sOff(s *Term) *Term {
	if s.Op == "mk_"+s.Sort {
		return s.Args[1]
	}
	return App("off_"+s.Sort, "Int", s)
}
func (r *SortReg) sLen(s *Term) *Term {
	if s.Op == "mk_"+s.Sort {
		return s.Args[2]
	}
	return App("len_"+s.Sort, "Int", s)
}
func (r *SortReg) sCap(s *Term) *Term {
	if s.Op == "mk_"+s.Sort {
		return s.Args[3]
	}
	return App("cap_"+s.Sort, "Int", s)
}
func (r *SortReg) sNil(s *Term) *Term {
	if s.Op == "mk_"+s.Sort {
		return s.Args[4]
	}
	return App("nil_"+s.Sort, "Bool", s)
}
func (r *SortReg) sMk(sort string, arr, off, ln, cp, isnil *Term) *Term {
	return App("mk_"+sort, sort, arr, off, ln, cp, isnil)
}
func (r *SortReg) sliceElem(sliceSort string) string {
	d := r.decls[sliceSort]
	// find "(Array Int X)" inside the declaration
	i := strings.Index(d, "(Array Int ")
	if i < 0 {
		panic("not a slice sort: " + sliceSort)
	}
	rest := d[i:]
	// take balanced s-expression
	depth := 0
	for j, c := range rest {
		if c == '(' {
			depth++
		} else if c == ')' {
			depth--
			if depth == 0 {
				return arrayElemSort(rest[:j+1])
			}
		}
	}
	panic("bad slice decl")
}
func (r *SortReg) sIndex(s, i *Term) *Term {
	if hasBoundTerm(i) && s.Op != "mk_"+s.Sort {
		// inside quantifiers: a function symbol gives the solvers a clean trigger; its defining axiom
		// idx(s,i) = arr(s)[off(s)+i] is instantiated wherever an idx term occurs
		name := "idx_" + s.Sort
		es := r.sliceElem(s.Sort)
		r.Fun(name, []string{s.Sort, "Int"}, es)
		r.Axiom(name, fmt.Sprintf("(forall ((s %s) (i Int)) (! (= (%s s i) (select (arr_%s s) (+ (off_%s s) i))) :pattern ((%s s i))))",
			s.Sort, name, s.Sort, s.Sort, name))
		return App(name, es, s, i)
	}
	return Select(r.sArr(s), Add(r.sOff(s), i))
}

func hasBoundTerm(t *Term) bool {
	if t.Op == "bound" {
		return true
	}
	for _, a := range t.Args {
		if hasBoundTerm(a) {
			return true
		}
	}
	return false
}

const prelude = `
(define-fun wrap64 ((x Int)) Int (ite (and (<= (- 9223372036854775808) x) (<= x 9223372036854775807)) x (- (mod (+ x 9223372036854775808) 18446744073709551616) 9223372036854775808)))
(define-fun wrap32 ((x Int)) Int (ite (and (<= (- 2147483648) x) (<= x 2147483647)) x (- (mod (+ x 2147483648) 4294967296) 2147483648)))
(define-fun wrap16 ((x Int)) Int (ite (and (<= (- 32768) x) (<= x 32767)) x (- (mod (+ x 32768) 65536) 32768)))
(define-fun wrap8 ((x Int)) Int (ite (and (<= (- 128) x) (<= x 127)) x (- (mod (+ x 128) 256) 128)))
(define-fun uwrap64 ((x Int)) Int (ite (and (<= 0 x) (<= x 18446744073709551615)) x (mod x 18446744073709551616)))
(define-fun uwrap32 ((x Int)) Int (ite (and (<= 0 x) (<= x 4294967295)) x (mod x 4294967296)))
(define-fun uwrap16 ((x Int)) Int (ite (and (<= 0 x) (<= x 65535)) x (mod x 65536)))
(define-fun uwrap8 ((x Int)) Int (ite (and (<= 0 x) (<= x 255)) x (mod x 256)))
(define-fun tdiv ((a Int) (b Int)) Int (ite (>= a 0) (ite (> b 0) (div a b) (- (div a (- b)))) (ite (> b 0) (- (div (- a) b)) (div (- a) (- b)))))
(define-fun trem ((a Int) (b Int)) Int (- a (* b (tdiv a b))))
(define-fun be16 ((a (Array Int Int)) (o Int)) Int (+ (* 256 (select a o)) (select a (+ o 1))))
(define-fun be32 ((a (Array Int Int)) (o Int)) Int (+ (* 16777216 (select a o)) (* 65536 (select a (+ o 1))) (* 256 (select a (+ o 2))) (select a (+ o 3))))
(define-fun be64 ((a (Array Int Int)) (o Int)) Int (+ (* 4294967296 (be32 a o)) (be32 a (+ o 4))))
(define-fun zigzag ((x Int)) Int (ite (>= x 0) (* 2 x) (- (* (- 2) x) 1)))
(define-fun sz_uvarint ((u Int)) Int (ite (< u 128) 1 (ite (< u 16384) 2 (ite (< u 2097152) 3 (ite (< u 268435456) 4 (ite (< u 34359738368) 5 (ite (< u 4398046511104) 6 (ite (< u 562949953421312) 7 (ite (< u 72057594037927936) 8 (ite (< u 9223372036854775808) 9 10))))))))))
(define-fun sz_varint ((x Int)) Int (sz_uvarint (zigzag x)))
(define-fun uv_val ((a (Array Int Int)) (o Int)) Int (ite (< (select a (+ o 0)) 128) (select a (+ o 0)) (+ (- (select a (+ o 0)) 128) (* 128 (ite (< (select a (+ o 1)) 128) (select a (+ o 1)) (+ (- (select a (+ o 1)) 128) (* 128 (ite (< (select a (+ o 2)) 128) (select a (+ o 2)) (+ (- (select a (+ o 2)) 128) (* 128 (ite (< (select a (+ o 3)) 128) (select a (+ o 3)) (+ (- (select a (+ o 3)) 128) (* 128 (ite (< (select a (+ o 4)) 128) (select a (+ o 4)) (+ (- (select a (+ o 4)) 128) (* 128 (ite (< (select a (+ o 5)) 128) (select a (+ o 5)) (+ (- (select a (+ o 5)) 128) (* 128 (ite (< (select a (+ o 6)) 128) (select a (+ o 6)) (+ (- (select a (+ o 6)) 128) (* 128 (ite (< (select a (+ o 7)) 128) (select a (+ o 7)) (+ (- (select a (+ o 7)) 128) (* 128 (ite (< (select a (+ o 8)) 128) (select a (+ o 8)) (+ (- (select a (+ o 8)) 128) (* 128 (select a (+ o 9))))))))))))))))))))))))))))))
(define-fun uv_len ((a (Array Int Int)) (o Int)) Int (ite (< (select a (+ o 0)) 128) 1 (ite (< (select a (+ o 1)) 128) 2 (ite (< (select a (+ o 2)) 128) 3 (ite (< (select a (+ o 3)) 128) 4 (ite (< (select a (+ o 4)) 128) 5 (ite (< (select a (+ o 5)) 128) 6 (ite (< (select a (+ o 6)) 128) 7 (ite (< (select a (+ o 7)) 128) 8 (ite (< (select a (+ o 8)) 128) 9 (ite (< (select a (+ o 9)) 128) 10 11)))))))))))
(define-fun uv_n ((a (Array Int Int)) (o Int) (l Int)) Int (ite (<= (uv_len a o) 10) (ite (<= (uv_len a o) l) (ite (and (= (uv_len a o) 10) (> (select a (+ o 9)) 1)) (- 10) (uv_len a o)) 0) (ite (> l 10) (- 11) 0)))
(define-fun uv_value ((a (Array Int Int)) (o Int) (l Int)) Int (ite (> (uv_n a o l) 0) (uv_val a o) 0))
(define-fun unzigzag ((u Int)) Int (ite (= (mod u 2) 0) (div u 2) (- (- (div u 2)) 1)))
(declare-sort Str 0)
(declare-fun strlen (Str) Int)
(declare-fun dyntype (Int) Int)
`

func (r *SortReg) Emit(sb *strings.Builder, usedFuns map[string]bool) {
	sb.WriteString(prelude)
	for _, n := range r.order {
		sb.WriteString(r.decls[n])
		sb.WriteString("\n")
	}
	names := make([]string, 0)
	for _, n := range r.forder {
		if usedFuns == nil || usedFuns[n] {
			names = append(names, n)
		}
	}
	for _, n := range names {
		sb.WriteString(r.funs[n])
		sb.WriteString("\n")
	}
	// axioms attached to symbols that are not declared functions (prelude definitions): by key
	for k := range r.axioms {
		if _, declared := r.funs[k]; !declared && (usedFuns == nil || usedFuns[k]) {
			names = append(names, k)
		}
	}
	sort.Strings(names)
	for _, n := range names {
		for _, a := range r.axioms[n] {
			sb.WriteString("(assert " + a + ")\n")
		}
	}
}

// usedIn: the declared function symbols occurring in text, closed under the symbols their axioms mention.
func (r *SortReg) usedIn(text string) map[string]bool {
	used := map[string]bool{}
	var work []string
	mark := func(t string) {
		for _, n := range r.forder {
			if used[n] {
				continue
			}
			if containsSymbol(t, smtName(n)) {
				used[n] = true
				work = append(work, n)
			}
		}
	}
	mark(text)
	// axioms about prelude definitions (keys "ghost.<name>" without a declared function)
	for k := range r.axioms {
		if _, declared := r.funs[k]; !declared && containsSymbol(text, strings.TrimPrefix(k, "ghost.")) {
			used[k] = true
			work = append(work, k)
		}
	}
	for len(work) > 0 {
		n := work[len(work)-1]
		work = work[:len(work)-1]
		for _, a := range r.axioms[n] {
			mark(a)
		}
	}
	return used
}

// containsSymbol: sym occurs in t delimited by SMT-LIB token boundaries.
func containsSymbol(t, sym string) bool {
	for i := 0; ; {
		j := strings.Index(t[i:], sym)
		if j < 0 {
			return false
		}
		j += i
		before := j == 0 || strings.ContainsRune(" ()\n\t", rune(t[j-1]))
		end := j + len(sym)
		after := end >= len(t) || strings.ContainsRune(" ()\n\t", rune(t[end]))
		if before && after {
			return true
		}
		i = j + 1
	}
}
