package main

import (
	"bytes"
	"encoding/json"
	"fmt"
	"go/types"
	"os"
	"os/exec"
	"path/filepath"
	"regexp"
	"strconv"
	"strings"
	"time"
)

// Replay: turn the model of a refuted obligation into a concrete input and run the real code on it.
//
// The obligation is re-generated with loops unrolled (bounded search, used only to find an input —
// never to discharge anything) and, for functions reading from a packetDecoder, with the decoder
// made concrete (*realDecoder over a symbolic byte array), so that the model contains the bytes.

const replayMaxBytes = 48

type replayShape struct {
	kind     string // "realDecoder-method", "decode-func"
	pdParams []int  // indices of packetDecoder parameters
}

func (p *Prog) replayShapeOf(fi *FuncInfo) *replayShape {
	if fi == nil || fi.Body == nil || fi.Lit != nil || fi.Sig == nil {
		return nil
	}
	if strings.HasPrefix(fi.Key, "mocks.") {
		return nil
	}
	if fi.Sig.Recv() != nil && namedOf(fi.Sig.Recv().Type()) == "realDecoder" {
		for i := 0; i < fi.Sig.Params().Len(); i++ {
			if p.sortOf(fi.Sig.Params().At(i).Type()) != "Int" || isRefLike(fi.Sig.Params().At(i).Type()) {
				return nil
			}
		}
		return &replayShape{kind: "realDecoder-method"}
	}
	sh := &replayShape{kind: "decode-func"}
	for i := 0; i < fi.Sig.Params().Len(); i++ {
		pt := fi.Sig.Params().At(i).Type()
		if namedOf(pt) == "packetDecoder" {
			sh.pdParams = append(sh.pdParams, i)
		}
	}
	if len(sh.pdParams) == 0 {
		return nil
	}
	return sh
}

type replayRecord struct {
	Property   string            `json:"property"`
	Obligation string            `json:"obligation"`
	Function   string            `json:"function"`
	Clause     string            `json:"clause"`
	Pos        string            `json:"pos"`
	Shape      string            `json:"shape"`
	Inputs     map[string]string `json:"inputs"`
	TestFile   string            `json:"test_file"`
	Cmd        string            `json:"cmd"`
	Output     string            `json:"output"`
	Reproduced bool              `json:"reproduced"`
	Criterion  string            `json:"criterion"`
	SMTFile    string            `json:"smt_file"`
}

func tryReplay(p *Prog, prop string, r *Result) (string, bool) {
	if os.Getenv("VERIF_NO_REPLAY") != "" {
		return "", false
	}
	fi := p.funcs[r.Ob.Func]
	sh := p.replayShapeOf(fi)
	if sh == nil {
		return "", false
	}
	switch r.Ob.Kind {
	case "index", "slice", "make", "make-bound", "nilmap", "div", "typeassert", "panic":
	default:
		return "", false
	}
	// re-lower with unrolled loops / concrete decoder
	saved := p.opts
	p.opts = lowerOpts{unroll: 2, concretePD: sh.kind == "decode-func"}
	defer func() { p.opts = saved }()
	ct := p.contractFor(fi)
	f, err := p.lowerTop(fi, ct)
	if err != nil {
		if os.Getenv("VERIF_DEBUG") != "" {
			fmt.Println("replay lowering failed:", err)
		}
		return "", false
	}
	qs, err := generateVCs(p, f)
	if err != nil {
		if os.Getenv("VERIF_DEBUG") != "" {
			fmt.Println("replay vcgen failed:", err)
		}
		return "", false
	}
	dir := filepath.Join(verifDir, "replays", prop)
	os.MkdirAll(dir, 0o755)
	base := sanitizeFile(r.Ob.Name)
	n := 0
	for _, q := range qs {
		if q.Ob.Kind != r.Ob.Kind || q.Ob.Pos != r.Ob.Pos || q.Ob.Descr != r.Ob.Descr || q.Ob.Canary {
			continue
		}
		n++
		if n > 6 {
			break
		}
		rec := p.replayOne(prop, fi, sh, f, q, r, filepath.Join(dir, fmt.Sprintf("%s.%d", base, n)))
		if rec != nil && rec.Reproduced {
			path := filepath.Join(dir, base+".replay.json")
			data, _ := json.MarshalIndent(rec, "", " ")
			os.WriteFile(path, data, 0o644)
			return path, true
		}
	}
	return "", false
}

var reValue = regexp.MustCompile(`\(rv_(\d+)\s+(\(-\s*\d+\)|-?\d+|true|false)\)`)

func (p *Prog) replayOne(prop string, fi *FuncInfo, sh *replayShape, f *FuncIVL, q *Query, r *Result, stem string) *replayRecord {
	// terms to read from the model
	type want struct {
		name string
		smt  string
	}
	var wants []want
	var extra []string
	decoders := []string{}
	switch sh.kind {
	case "realDecoder-method":
		decoders = append(decoders, "$p."+fi.Sig.Recv().Name())
	case "decode-func":
		for _, i := range sh.pdParams {
			decoders = append(decoders, "$p."+fi.Sig.Params().At(i).Name())
		}
	}
	incOf := func(v string) string {
		if n, ok := q.IncOf[v]; ok {
			return n
		}
		return v
	}
	for di, d := range decoders {
		if _, ok := f.Vars[d]; !ok {
			return nil
		}
		d = incOf(d)
		decoders[di] = d
		raw := fmt.Sprintf("(select F.realDecoder.raw %s)", smtName(d))
		if _, ok := f.Vars["F.realDecoder.raw"]; !ok {
			return nil
		}
		extra = append(extra, fmt.Sprintf("(assert (<= (len_Slice_Int %s) %d))", raw, replayMaxBytes))
		extra = append(extra, fmt.Sprintf("(assert (= (off_Slice_Int %s) 0))", raw))
		extra = append(extra, fmt.Sprintf("(assert (not (nil_Slice_Int %s)))", raw))
		wants = append(wants, want{fmt.Sprintf("len%d", di), fmt.Sprintf("(len_Slice_Int %s)", raw)})
		if _, ok := f.Vars["F.realDecoder.off"]; ok {
			if sh.kind == "decode-func" {
				extra = append(extra, fmt.Sprintf("(assert (= (select F.realDecoder.off %s) 0))", smtName(d)))
			}
			wants = append(wants, want{fmt.Sprintf("off%d", di), fmt.Sprintf("(select F.realDecoder.off %s)", smtName(d))})
		}
		for k := 0; k < replayMaxBytes; k++ {
			wants = append(wants, want{fmt.Sprintf("b%d_%d", di, k), fmt.Sprintf("(select (arr_Slice_Int %s) %d)", raw, k)})
			extra = append(extra, fmt.Sprintf("(assert (and (<= 0 (select (arr_Slice_Int %s) %d)) (<= (select (arr_Slice_Int %s) %d) 255)))", raw, k, raw, k))
		}
	}
	if len(decoders) == 2 {
		extra = append(extra, fmt.Sprintf("(assert (distinct %s %s))", smtName(decoders[0]), smtName(decoders[1])))
	}
	// scalar parameters
	for i := 0; i < fi.Sig.Params().Len(); i++ {
		pv := fi.Sig.Params().At(i)
		if pv.Name() == "" || pv.Name() == "_" {
			continue
		}
		if _, _, ok := intRange(pv.Type()); ok {
			if _, declared := f.Vars["$p."+pv.Name()]; declared {
				wants = append(wants, want{"arg." + pv.Name(), smtName(incOf("$p." + pv.Name()))})
			}
		}
	}
	// build query: strip the trailing (check-sat)
	text := strings.TrimSuffix(strings.TrimSpace(q.Text), "(check-sat)")
	var sb strings.Builder
	sb.WriteString(text)
	sb.WriteString("\n")
	for _, e := range extra {
		sb.WriteString(e + "\n")
	}
	for i, w := range wants {
		fmt.Fprintf(&sb, "(declare-const rv_%d Int)\n(assert (= rv_%d %s))\n", i, i, w.smt)
	}
	sb.WriteString("(check-sat)\n(get-value (")
	for i := range wants {
		fmt.Fprintf(&sb, "rv_%d ", i)
	}
	sb.WriteString("))\n")
	smtFile := stem + ".smt2"
	os.WriteFile(smtFile, []byte(sb.String()), 0o644)
	var out string
	status := ""
	for _, s := range []solverSpec{solvers[0], solvers[1]} {
		st, o, _ := runSolverCtx(s, smtFile, 20)
		if st == "sat" {
			status, out = st, o
			break
		}
	}
	if status != "sat" {
		if os.Getenv("VERIF_DEBUG") != "" {
			fmt.Println("replay query not sat:", smtFile, firstLines(out, 2))
		}
		return nil
	}
	vals := map[string]int64{}
	for _, m := range reValue.FindAllStringSubmatch(out, -1) {
		idx, _ := strconv.Atoi(m[1])
		vs := strings.NewReplacer("(", "", ")", "", " ", "").Replace(m[2])
		v, err := strconv.ParseInt(vs, 10, 64)
		if err != nil {
			continue
		}
		if idx < len(wants) {
			vals[wants[idx].name] = v
		}
	}
	// concrete inputs
	rec := &replayRecord{Property: prop, Obligation: r.Ob.Name, Function: fi.Key, Clause: r.Ob.Descr, Pos: r.Ob.Pos,
		Shape: sh.kind, Inputs: map[string]string{}, SMTFile: smtFile}
	var raws []string
	for di := range decoders {
		n := int(vals[fmt.Sprintf("len%d", di)])
		if n < 0 || n > replayMaxBytes {
			return nil
		}
		var bs []string
		for k := 0; k < n; k++ {
			bs = append(bs, fmt.Sprintf("0x%02x", vals[fmt.Sprintf("b%d_%d", di, k)]&0xff))
		}
		lit := "[]byte{" + strings.Join(bs, ", ") + "}"
		raws = append(raws, lit)
		rec.Inputs[fmt.Sprintf("raw%d", di)] = lit
		if off, ok := vals[fmt.Sprintf("off%d", di)]; ok {
			rec.Inputs[fmt.Sprintf("off%d", di)] = fmt.Sprint(off)
		}
	}
	// harness
	var body strings.Builder
	qual := func(t types.Type) string {
		return types.TypeString(t, func(pk *types.Package) string {
			if pk.Path() == fi.Pkg.PkgPath {
				return ""
			}
			return pk.Name()
		})
	}
	switch sh.kind {
	case "realDecoder-method":
		off := vals["off0"]
		fmt.Fprintf(&body, "\trd := &realDecoder{raw: %s, off: %d}\n", raws[0], off)
		var args []string
		for i := 0; i < fi.Sig.Params().Len(); i++ {
			pv := fi.Sig.Params().At(i)
			args = append(args, fmt.Sprintf("%s(%d)", qual(pv.Type()), vals["arg."+pv.Name()]))
			rec.Inputs["arg."+pv.Name()] = fmt.Sprint(vals["arg."+pv.Name()])
		}
		fmt.Fprintf(&body, "\tinputLen = len(rd.raw)\n")
		call := fmt.Sprintf("rd.%s(%s)", fi.Obj.Name(), strings.Join(args, ", "))
		if fi.Sig.Results().Len() > 0 {
			lhs := strings.TrimSuffix(strings.Repeat("_, ", fi.Sig.Results().Len()), ", ")
			fmt.Fprintf(&body, "\t%s = %s\n", lhs, call)
		} else {
			fmt.Fprintf(&body, "\t%s\n", call)
		}
	case "decode-func":
		var args []string
		di := 0
		for i := 0; i < fi.Sig.Params().Len(); i++ {
			pv := fi.Sig.Params().At(i)
			isPD := false
			for _, k := range sh.pdParams {
				if k == i {
					isPD = true
				}
			}
			switch {
			case isPD:
				fmt.Fprintf(&body, "\tpd%d := &realDecoder{raw: %s}\n\tinputLen += len(pd%d.raw)\n", di, raws[di], di)
				args = append(args, fmt.Sprintf("pd%d", di))
				di++
			default:
				if _, _, ok := intRange(pv.Type()); ok {
					args = append(args, fmt.Sprintf("%s(%d)", qual(pv.Type()), vals["arg."+pv.Name()]))
					rec.Inputs["arg."+pv.Name()] = fmt.Sprint(vals["arg."+pv.Name()])
				} else {
					fmt.Fprintf(&body, "\tvar a%d %s\n", i, qual(pv.Type()))
					args = append(args, fmt.Sprintf("a%d", i))
				}
			}
		}
		call := ""
		if fi.Sig.Recv() != nil {
			rt := fi.Sig.Recv().Type()
			if pt, ok := rt.(*types.Pointer); ok {
				fmt.Fprintf(&body, "\trecv := new(%s)\n", qual(pt.Elem()))
			} else {
				fmt.Fprintf(&body, "\tvar recv %s\n", qual(rt))
			}
			call = fmt.Sprintf("recv.%s(%s)", fi.Obj.Name(), strings.Join(args, ", "))
		} else {
			call = fmt.Sprintf("%s(%s)", fi.Obj.Name(), strings.Join(args, ", "))
		}
		if fi.Sig.Results().Len() > 0 {
			lhs := strings.TrimSuffix(strings.Repeat("_, ", fi.Sig.Results().Len()), ", ")
			fmt.Fprintf(&body, "\t%s = %s\n", lhs, call)
		} else {
			fmt.Fprintf(&body, "\t%s\n", call)
		}
	}
	test := fmt.Sprintf(`package sarama

// Generated by govc from the solver's counterexample for obligation
//   %s
//   %s  [%s]
// Runs the real function on the concrete input.

import (
	"fmt"
	"runtime"
	"testing"
)

func TestVerifReplay(t *testing.T) {
	var inputLen int
	var ms0, ms1 runtime.MemStats
	runtime.ReadMemStats(&ms0)
	defer func() {
		if r := recover(); r != nil {
			fmt.Printf("REPLAY-PANIC: %%v\n", r)
			return
		}
		runtime.ReadMemStats(&ms1)
		fmt.Printf("REPLAY-RESULT: returned normally alloc=%%d inputlen=%%d\n", ms1.TotalAlloc-ms0.TotalAlloc, inputLen)
	}()
%s}
`, r.Ob.Name, r.Ob.Descr, r.Ob.Pos, body.String())
	testFile := stem + "_test.go"
	os.WriteFile(testFile, []byte(test), 0o644)
	rec.TestFile = testFile
	outp, cmdline := runOverlayTest(testFile, "TestVerifReplay")
	rec.Cmd = cmdline
	rec.Output = truncate(outp, 4000)
	switch r.Ob.Kind {
	case "make-bound":
		rec.Criterion = "allocation out of proportion to the input (> 1 MiB and > 1024 bytes per input byte), an out-of-memory abort, or a panic"
		if strings.Contains(outp, "REPLAY-PANIC") || strings.Contains(outp, "out of memory") || strings.Contains(outp, "cannot allocate") {
			rec.Reproduced = true
		}
		if m := regexp.MustCompile(`alloc=(\d+) inputlen=(\d+)`).FindStringSubmatch(outp); m != nil {
			a, _ := strconv.ParseInt(m[1], 10, 64)
			il, _ := strconv.ParseInt(m[2], 10, 64)
			if a > 1<<20 && a > 1024*(il+1) {
				rec.Reproduced = true
			}
		}
	default:
		rec.Criterion = "the real function panics on the input"
		rec.Reproduced = strings.Contains(outp, "REPLAY-PANIC") || strings.Contains(outp, "panic:") || strings.Contains(outp, "fatal error")
	}
	if !rec.Reproduced {
		data, _ := json.MarshalIndent(rec, "", " ")
		os.WriteFile(stem+".notreproduced.json", data, 0o644)
	}
	return rec
}

func runSolverCtx(s solverSpec, file string, timeoutS int) (string, string, float64) {
	args := s.args(file, timeoutS)
	start := time.Now()
	cmd := exec.Command(args[0], args[1:]...)
	var buf bytes.Buffer
	cmd.Stdout = &buf
	cmd.Stderr = &buf
	done := make(chan error, 1)
	cmd.Start()
	go func() { done <- cmd.Wait() }()
	select {
	case <-done:
	case <-time.After(time.Duration(timeoutS+3) * time.Second):
		cmd.Process.Kill()
	}
	out := buf.String()
	first := strings.TrimSpace(strings.SplitN(out, "\n", 2)[0])
	return first, out, time.Since(start).Seconds()
}

// runOverlayTest runs an in-package test injected with -overlay (nothing is written into /repo).
func runOverlayTest(testFile, runName string) (string, string) {
	ov := map[string]map[string]string{"Replace": {filepath.Join(repoDir, "zz_verif_replay_test.go"): testFile}}
	ovFile := testFile + ".overlay.json"
	data, _ := json.Marshal(ov)
	os.WriteFile(ovFile, data, 0o644)
	cmdline := fmt.Sprintf("cd %s && ulimit -v 8388608 && go test -overlay %s -vet=off -timeout 60s -count=1 -v -run '^%s$' .", repoDir, ovFile, runName)
	cmd := exec.Command("sh", "-c", cmdline)
	cmd.Env = append(os.Environ(), "GOFLAGS=-mod=mod", "GOPROXY=off", "GOSUMDB=off", "GOTOOLCHAIN=local")
	var buf bytes.Buffer
	cmd.Stdout = &buf
	cmd.Stderr = &buf
	done := make(chan error, 1)
	cmd.Start()
	go func() { done <- cmd.Wait() }()
	select {
	case <-done:
	case <-time.After(150 * time.Second):
		cmd.Process.Kill()
	}
	return buf.String(), cmdline
}

// cmdReplay re-runs a stored replay file.
func cmdReplay(prop, path string) int {
	data, err := os.ReadFile(path)
	if err != nil {
		fmt.Println("cannot read", path, err)
		return 2
	}
	var rec replayRecord
	if err := json.Unmarshal(data, &rec); err != nil || rec.TestFile == "" {
		// a violation record without input
		fmt.Println(string(data))
		fmt.Println("no failing input is attached to this violation (no-failing-input-found)")
		return 1
	}
	runName := "TestVerifReplay"
	if rec.Shape == "wire-roundtrip" {
		runName = "TestVerifWireReplay"
	}
	out, cmdline := runOverlayTest(rec.TestFile, runName)
	fmt.Println(cmdline)
	fmt.Println(out)
	if strings.Contains(out, "VERIF-REPRO") || strings.Contains(out, "REPLAY-PANIC") || strings.Contains(out, "fatal error") || strings.Contains(out, "panic:") {
		fmt.Printf("VIOLATION property=%s replay=%s\n", rec.Property, path)
		return 1
	}
	return 0
}
