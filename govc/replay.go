package main

// tryReplay instantiates a replay template from the model of a refuted obligation and runs it on the
// real code. It returns the path of the replay file and whether the failure was reproduced.
func tryReplay(p *Prog, prop string, r *Result) (string, bool) {
	return "", false
}

func cmdReplay(prop, path string) int {
	return 0
}
