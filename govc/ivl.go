package main

import (
	"fmt"
	"os"
	"sort"
	"strings"
)

type StmtKind int

const (
	SAssign StmtKind = iota
	SHavoc
	SAssume
	SAssert
	SHavocAll  // havoc every heap variable (unknown call)
	SHavocObj  // havoc all fields of struct type Struct at reference Ref
	SAllocZero // zero all fields of struct type Struct at reference Ref
	SHavocSet  // havoc the heap variables whose names are in Set
)

// Oblig is a proof obligation.
type Oblig struct {
	Name   string
	Kind   string
	Func   string
	Label  string
	Descr  string
	Pos    string
	Props  []string
	Canary bool // must-fail vacuity canary
	Tag    string // clause family (label) the obligation belongs to: hypotheses of other families may be hidden
	Uses   []string // families that stay visible in the focused query
	Cover  bool // reachability check: must be sat
}

type Stmt struct {
	Kind   StmtKind
	Var    string
	Sort   string
	E      *Term
	Ob     *Oblig
	Struct string
	Ref    *Term
	Set    map[string]bool
	Note   string
	FrameVar string // for frame obligations: the heap variable concerned
	Tag    string // assumptions: clause family (label) they come from
}

type Block struct {
	ID    int
	Stmts []*Stmt
	Succs []*Block
	Loop  *LoopInfo // non-nil: this block is a cut loop head
	Name  string
}

type LoopInfo struct {
	Ordinal   int
	FirstBody int // block id range [FirstBody, LastBody] created while lowering the loop
	LastBody  int
	HavocAt   int // index in head.Stmts where havocs are inserted
	ExitID    int // the loop's exit block lies in the id range but is not part of the loop
	Extra     []string // hidden vars always havocked
}

// FuncIVL is the lowered form of one function under verification.
type FuncIVL struct {
	Key      string
	Blocks   []*Block
	Entry    *Block
	Vars     map[string]string // variable -> sort
	HeapVars map[string]bool
	Obligs   []*Oblig
	Unsupported []string
	Assumptions map[string]bool
	VarTypes    map[string]interface{} // variable -> go/types type (for type facts after a loop havoc)
	WfOf        func(v *Term, typ interface{}) *Term
}

func (f *FuncIVL) newBlock(name string) *Block {
	b := &Block{ID: len(f.Blocks), Name: name}
	f.Blocks = append(f.Blocks, b)
	return b
}

func (f *FuncIVL) declare(name, sort string) {
	if old, ok := f.Vars[name]; ok && old != sort {
		panic(fmt.Sprintf("variable %s redeclared with sort %s (was %s)", name, sort, old))
	}
	f.Vars[name] = sort
}

// heapVarsOfStruct returns the heap variables (F.<struct>.<path>) of a struct type known so far.
func (f *FuncIVL) heapVarsOfStruct(st string) []string {
	var out []string
	pre := "F." + st + "."
	for v := range f.HeapVars {
		if strings.HasPrefix(v, pre) {
			out = append(out, v)
		}
	}
	sort.Strings(out)
	return out
}

func (f *FuncIVL) allHeapVars() []string {
	var out []string
	for v := range f.HeapVars {
		out = append(out, v)
	}
	sort.Strings(out)
	return out
}

// expandPseudo rewrites pseudo statements into plain havoc/assign statements.
// zero gives the zero term for a heap variable's element sort.
func (f *FuncIVL) expandPseudo(zero func(heapVar string) *Term) {
	fresh := 0
	for _, b := range f.Blocks {
		var out []*Stmt
		for _, s := range b.Stmts {
			switch s.Kind {
			case SHavocAll:
				for _, hv := range f.allHeapVars() {
					if hv == "$alloc" {
						continue
					}
					out = append(out, &Stmt{Kind: SHavoc, Var: hv, Sort: f.Vars[hv], Note: s.Note})
				}
			case SHavocSet:
				for _, hv := range f.allHeapVars() {
					if s.Set["$nodecoderstate"] && isDecoderState(hv) {
						continue
					}
					if hv != "$alloc" && (modsetMatches(s.Set, hv) || (s.Set["F.packetDecoder.*"] && strings.HasPrefix(hv, "F.packetDecoder."))) {
						out = append(out, &Stmt{Kind: SHavoc, Var: hv, Sort: f.Vars[hv], Note: s.Note})
					}
				}
			case SHavocObj:
				for _, hv := range f.heapVarsOfStruct(s.Struct) {
					fresh++
					tmp := fmt.Sprintf("$hv%d", fresh)
					es := arrayElemSort(f.Vars[hv])
					f.declare(tmp, es)
					out = append(out, &Stmt{Kind: SHavoc, Var: tmp, Sort: es})
					out = append(out, &Stmt{Kind: SAssign, Var: hv, Sort: f.Vars[hv],
						E: Store(V(hv, f.Vars[hv]), s.Ref, V(tmp, es)), Note: s.Note})
				}
			case SAllocZero:
				for _, hv := range f.heapVarsOfStruct(s.Struct) {
					out = append(out, &Stmt{Kind: SAssign, Var: hv, Sort: f.Vars[hv],
						E: Store(V(hv, f.Vars[hv]), s.Ref, zero(hv)), Note: s.Note})
				}
			default:
				out = append(out, s)
			}
		}
		b.Stmts = out
	}
}

// fillLoopHavocs inserts, at every cut loop head, a havoc of each variable assigned in the loop.
func (f *FuncIVL) fillLoopHavocs(reg *SortReg) {
	fresh := 0
	// single-assignment variables, to resolve frozen references (computed before any loop havoc is inserted)
	defs := map[string]*Term{}
	ndef := map[string]int{}
	for _, bb := range f.Blocks {
		for _, s := range bb.Stmts {
			if s.Kind == SAssign || s.Kind == SHavoc {
				ndef[s.Var]++
				if s.Kind == SAssign {
					defs[s.Var] = s.E
				}
			}
		}
	}
	for _, b := range f.Blocks {
		if b.Loop == nil {
			continue
		}
		targets := map[string]bool{}
		for id := b.Loop.FirstBody; id <= b.Loop.LastBody && id < len(f.Blocks); id++ {
			if id == b.Loop.ExitID || id == b.ID {
				continue
			}
			for _, s := range f.Blocks[id].Stmts {
				if s.Kind == SAssign || s.Kind == SHavoc {
					targets[s.Var] = true
				}
			}
		}
		// statements in the head block after the havoc point also count
		for _, s := range b.Stmts[b.Loop.HavocAt:] {
			if s.Kind == SAssign || s.Kind == SHavoc {
				targets[s.Var] = true
			}
		}
		for _, x := range b.Loop.Extra {
			targets[x] = true
		}
		var names []string
		for v := range targets {
			names = append(names, v)
		}
		sort.Strings(names)
		var resolve func(t *Term, depth int) *Term
		resolve = func(t *Term, depth int) *Term {
			if depth > 8 {
				return nil
			}
			vs := map[string]string{}
			t.Vars(vs)
			sub := map[string]*Term{}
			for v := range vs {
				if !targets[v] {
					continue
				}
				d, ok := defs[v]
				if !ok || ndef[v] != 1 {
					return nil
				}
				r := resolve(d, depth+1)
				if r == nil {
					return nil
				}
				sub[v] = r
			}
			return t.Subst(sub)
		}
		var hav []*Stmt
		for _, v := range names {
			if strings.HasSuffix(v, "@old") {
				continue
			}
			if v == "$alloc" {
				// allocation counter only grows
				hav = append(hav, &Stmt{Kind: SAssign, Var: "$alloc@pre" + fmt.Sprint(b.ID), Sort: "Int", E: V("$alloc", "Int")})
				f.declare("$alloc@pre"+fmt.Sprint(b.ID), "Int")
				hav = append(hav, &Stmt{Kind: SHavoc, Var: v, Sort: "Int"})
				hav = append(hav, &Stmt{Kind: SAssume, E: Le(V("$alloc@pre"+fmt.Sprint(b.ID), "Int"), V("$alloc", "Int"))})
				continue
			}
			// heap variables written only cell-wise at loop-invariant references: havoc those cells only
			if f.HeapVars[v] && strings.HasPrefix(f.Vars[v], "(Array Int ") {
				var refs []*Term
				cellwise := true
				hasFresh := false
				shapeKept := map[string]bool{} // resolved ref -> all stores keep the slice shape
				scan := func(stmts []*Stmt) {
					for _, s := range stmts {
						if (s.Kind != SAssign && s.Kind != SHavoc) || s.Var != v {
							continue
						}
						if s.Kind == SAssign && s.E.Op == "store" && s.E.Args[0].Op == "var" && s.E.Args[0].Name == v {
							r := resolve(s.E.Args[1], 0)
							if r == nil && isFreshRef(s.E.Args[1], defs, ndef, 0) {
								// an object allocated inside the loop: not below the allocation counter at loop entry
								hasFresh = true
								continue
							}
							if r != nil {
								refs = append(refs, r)
								key := r.String()
								keeps := false
								val := s.E.Args[2]
								if strings.HasPrefix(val.Sort, "Slice_") && val.Op == "mk_"+val.Sort && len(val.Args) == 5 {
									keeps = true
									for k, acc := range []string{"off_", "len_", "cap_", "nil_"} {
										a := val.Args[k+1]
										if !(a.Op == acc+val.Sort && len(a.Args) == 1 && a.Args[0].Op == "select" &&
											a.Args[0].Args[0].Op == "var" && a.Args[0].Args[0].Name == v &&
											a.Args[0].Args[1].String() == s.E.Args[1].String()) {
											keeps = false
										}
									}
								}
								if prev, seen := shapeKept[key]; seen {
									shapeKept[key] = prev && keeps
								} else {
									shapeKept[key] = keeps
								}
								continue
							}
						}
						if os.Getenv("VERIF_DEBUG_LOOP") != "" {
							fmt.Fprintf(os.Stderr, "loop head B%d: %s not cell-wise because of stmt kind=%d var=%s expr=%v note=%s\n", b.ID, v, s.Kind, s.Var, s.E, s.Note)
						}
						cellwise = false
					}
				}
				for id := b.Loop.FirstBody; id <= b.Loop.LastBody && id < len(f.Blocks); id++ {
					if id == b.Loop.ExitID || id == b.ID {
						continue
					}
					scan(f.Blocks[id].Stmts)
				}
				scan(b.Stmts[b.Loop.HavocAt:])
				if hasFresh {
					cellwise = false // new objects are written in the loop: havoc the whole variable (sound)
				}
				if cellwise && len(refs) > 0 && len(refs) <= 6 {
					es := arrayElemSort(f.Vars[v])
					cur := V(v, f.Vars[v])
					var pre []*Stmt
					seen := map[string]bool{}
					for _, r := range refs {
						if seen[r.String()] {
							continue
						}
						seen[r.String()] = true
						fresh++
						tn := fmt.Sprintf("$lh%d_%d", b.ID, fresh)
						if shapeKept[r.String()] {
							// only the elements of the slice stored in this cell change
							as := arraySort("Int", reg.sliceElem(es))
							f.declare(tn, as)
							pre = append(pre, &Stmt{Kind: SHavoc, Var: tn, Sort: as})
							old := Select(V(v, f.Vars[v]), r)
							cur = Store(cur, r, App("mk_"+es, es, V(tn, as), App("off_"+es, "Int", old), App("len_"+es, "Int", old), App("cap_"+es, "Int", old), App("nil_"+es, "Bool", old)))
							continue
						}
						f.declare(tn, es)
						pre = append(pre, &Stmt{Kind: SHavoc, Var: tn, Sort: es})
						cur = Store(cur, r, V(tn, es))
					}
					hav = append(hav, pre...)
					hav = append(hav, &Stmt{Kind: SAssign, Var: v, Sort: f.Vars[v], E: cur, Note: "loop (cell-wise)"})
					continue
				}
			}
			// slice variables assigned only by element stores keep their shape
			if strings.HasPrefix(f.Vars[v], "Slice_") {
				srt := f.Vars[v]
				shapeOnly := true
				scan := func(stmts []*Stmt) {
					for _, s := range stmts {
						if (s.Kind != SAssign && s.Kind != SHavoc) || s.Var != v {
							continue
						}
						ok := s.Kind == SAssign && s.E.Op == "mk_"+srt && len(s.E.Args) == 5
						if ok {
							for k, acc := range []string{"off_", "len_", "cap_", "nil_"} {
								a := s.E.Args[k+1]
								if !(a.Op == acc+srt && len(a.Args) == 1 && a.Args[0].Op == "var" && a.Args[0].Name == v) {
									ok = false
								}
							}
						}
						if !ok {
							shapeOnly = false
						}
					}
				}
				for id := b.Loop.FirstBody; id <= b.Loop.LastBody && id < len(f.Blocks); id++ {
					if id == b.Loop.ExitID || id == b.ID {
						continue
					}
					scan(f.Blocks[id].Stmts)
				}
				scan(b.Stmts[b.Loop.HavocAt:])
				if shapeOnly {
					fresh++
					tn := fmt.Sprintf("$lh%d_%d", b.ID, fresh)
					d := reg.decls[srt]
					_ = d
					as := arraySort("Int", reg.sliceElem(srt))
					f.declare(tn, as)
					cur := V(v, srt)
					hav = append(hav, &Stmt{Kind: SHavoc, Var: tn, Sort: as})
					hav = append(hav, &Stmt{Kind: SAssign, Var: v, Sort: srt, Note: "loop (elements only)",
						E: App("mk_"+srt, srt, V(tn, as), App("off_"+srt, "Int", cur), App("len_"+srt, "Int", cur), App("cap_"+srt, "Int", cur), App("nil_"+srt, "Bool", cur))})
					continue
				}
			}
			hav = append(hav, &Stmt{Kind: SHavoc, Var: v, Sort: f.Vars[v], Note: "loop"})
			if f.WfOf != nil {
				if ty, ok := f.VarTypes[v]; ok {
					if w := f.WfOf(V(v, f.Vars[v]), ty); w != nil {
						hav = append(hav, &Stmt{Kind: SAssume, E: w})
					}
				}
			}
		}
		stmts := append([]*Stmt{}, b.Stmts[:b.Loop.HavocAt]...)
		stmts = append(stmts, hav...)
		stmts = append(stmts, b.Stmts[b.Loop.HavocAt:]...)
		b.Stmts = stmts
	}
}

// isFreshRef: the reference is (a copy of) the allocation counter read by an allocation, i.e. a new object.
func isFreshRef(t *Term, defs map[string]*Term, ndef map[string]int, depth int) bool {
	if depth > 8 || t.Op != "var" {
		return false
	}
	d, ok := defs[t.Name]
	if !ok || ndef[t.Name] != 1 {
		return false
	}
	if d.Op == "var" && d.Name == "$alloc" {
		return true
	}
	return isFreshRef(d, defs, ndef, depth+1)
}

// dischargeFreshFrames: a frame obligation for heap variable F is true by construction when every write to
// F in the function is a store at a reference that an allocation in this function produced: objects that
// existed at entry cannot be reached by such writes.
func (f *FuncIVL) dischargeFreshFrames() {
	defs := map[string]*Term{}
	ndef := map[string]int{}
	for _, b := range f.Blocks {
		for _, s := range b.Stmts {
			if s.Kind == SAssign || s.Kind == SHavoc {
				ndef[s.Var]++
				if s.Kind == SAssign {
					defs[s.Var] = s.E
				}
			}
		}
	}
	freshOnly := map[string]bool{}
	for hv := range f.HeapVars {
		ok, any := true, false
		for _, b := range f.Blocks {
			for _, s := range b.Stmts {
				if (s.Kind != SAssign && s.Kind != SHavoc) || s.Var != hv {
					continue
				}
				any = true
				if s.Kind == SAssign && s.E.Op == "store" && s.E.Args[0].Op == "var" && s.E.Args[0].Name == hv &&
					isFreshRef(s.E.Args[1], defs, ndef, 0) {
					continue
				}
				ok = false
			}
		}
		if ok && any {
			freshOnly[hv] = true
		}
	}
	for _, b := range f.Blocks {
		for _, s := range b.Stmts {
			if s.Kind == SAssert && s.Ob != nil && s.Ob.Kind == "frame" && s.FrameVar != "" && freshOnly[s.FrameVar] {
				s.E = tTrue
				s.Ob.Descr += " (by construction: only objects allocated by this function are written)"
			}
		}
	}
}

// splitJoinAsserts: a dead-end block that only checks obligations (the cut back edge of a loop) and is entered
// from several places is copied per incoming edge, so that each copy is checked on one path instead of on
// a merged state (helps quantified invariants). Obligation names of the copies get the suffix @e<k>.
func (f *FuncIVL) splitJoinAsserts() {
	// jump threading: empty join blocks with a single successor are bypassed, so that the checks below are
	// reached directly from the ends of the individual paths
	for changed := true; changed; {
		changed = false
		for _, b := range f.Blocks {
			for j, sc := range b.Succs {
				if len(sc.Stmts) == 0 && len(sc.Succs) == 1 && sc.Loop == nil && sc != f.Entry && sc.Succs[0] != sc {
					b.Succs[j] = sc.Succs[0]
					changed = true
				}
			}
		}
	}
	preds := map[int][]*Block{}
	for _, b := range f.Blocks {
		for _, s := range b.Succs {
			preds[s.ID] = append(preds[s.ID], b)
		}
	}
	n := len(f.Blocks)
	for i := 0; i < n; i++ {
		b := f.Blocks[i]
		if len(b.Succs) != 0 || len(preds[b.ID]) < 2 || !strings.HasSuffix(b.Name, ".post") {
			continue
		}
		hasAssert := false
		for _, s := range b.Stmts {
			if s.Kind == SAssert {
				hasAssert = true
			}
		}
		if !hasAssert {
			continue
		}
		seen := map[*Block]bool{}
		k := 0
		for _, p := range preds[b.ID] {
			if seen[p] {
				continue
			}
			seen[p] = true
			k++
			if k == 1 {
				continue // the first predecessor keeps the original block
			}
			cp := f.newBlock(b.Name)
			for _, s := range b.Stmts {
				c := *s
				if s.Ob != nil {
					ob := *s.Ob
					ob.Name = fmt.Sprintf("%s@e%d", s.Ob.Name, k-1)
					c.Ob = &ob
					f.Obligs = append(f.Obligs, &ob)
				}
				cp.Stmts = append(cp.Stmts, &c)
			}
			for j, sc := range p.Succs {
				if sc == b {
					p.Succs[j] = cp
				}
			}
		}
	}
}

func isDecoderState(hv string) bool {
	return strings.HasPrefix(hv, "F.packetDecoder.") || strings.HasPrefix(hv, "F.realDecoder.")
}
