package main

import (
	"fmt"
	"sort"
	"strings"
)

type StmtKind int

const (
	SAssign StmtKind = iota
	SHavoc
	SAssume
	SAssert
	SHavocAll  // havoc every heap variable (unknown call)
	SHavocObj  // havoc all fields of struct type Struct at reference Ref
	SAllocZero // zero all fields of struct type Struct at reference Ref
	SHavocSet  // havoc the heap variables whose names are in Set
)

// Oblig is a proof obligation.
type Oblig struct {
	Name   string
	Kind   string
	Func   string
	Label  string
	Descr  string
	Pos    string
	Props  []string
	Canary bool // must-fail vacuity canary
	Cover  bool // reachability check: must be sat
}

type Stmt struct {
	Kind   StmtKind
	Var    string
	Sort   string
	E      *Term
	Ob     *Oblig
	Struct string
	Ref    *Term
	Set    map[string]bool
	Note   string
}

type Block struct {
	ID    int
	Stmts []*Stmt
	Succs []*Block
	Loop  *LoopInfo // non-nil: this block is a cut loop head
	Name  string
}

type LoopInfo struct {
	Ordinal   int
	FirstBody int // block id range [FirstBody, LastBody] created while lowering the loop
	LastBody  int
	HavocAt   int // index in head.Stmts where havocs are inserted
	ExitID    int // the loop's exit block lies in the id range but is not part of the loop
	Extra     []string // hidden vars always havocked
}

// FuncIVL is the lowered form of one function under verification.
type FuncIVL struct {
	Key      string
	Blocks   []*Block
	Entry    *Block
	Vars     map[string]string // variable -> sort
	HeapVars map[string]bool
	Obligs   []*Oblig
	Unsupported []string
	Assumptions map[string]bool
}

func (f *FuncIVL) newBlock(name string) *Block {
	b := &Block{ID: len(f.Blocks), Name: name}
	f.Blocks = append(f.Blocks, b)
	return b
}

func (f *FuncIVL) declare(name, sort string) {
	if old, ok := f.Vars[name]; ok && old != sort {
		panic(fmt.Sprintf("variable %s redeclared with sort %s (was %s)", name, sort, old))
	}
	f.Vars[name] = sort
}

// heapVarsOfStruct returns the heap variables (F.<struct>.<path>) of a struct type known so far.
func (f *FuncIVL) heapVarsOfStruct(st string) []string {
	var out []string
	pre := "F." + st + "."
	for v := range f.HeapVars {
		if strings.HasPrefix(v, pre) {
			out = append(out, v)
		}
	}
	sort.Strings(out)
	return out
}

func (f *FuncIVL) allHeapVars() []string {
	var out []string
	for v := range f.HeapVars {
		out = append(out, v)
	}
	sort.Strings(out)
	return out
}

// expandPseudo rewrites pseudo statements into plain havoc/assign statements.
// zero gives the zero term for a heap variable's element sort.
func (f *FuncIVL) expandPseudo(zero func(heapVar string) *Term) {
	fresh := 0
	for _, b := range f.Blocks {
		var out []*Stmt
		for _, s := range b.Stmts {
			switch s.Kind {
			case SHavocAll:
				for _, hv := range f.allHeapVars() {
					if hv == "$alloc" {
						continue
					}
					out = append(out, &Stmt{Kind: SHavoc, Var: hv, Sort: f.Vars[hv], Note: s.Note})
				}
			case SHavocSet:
				for _, hv := range f.allHeapVars() {
					if hv != "$alloc" && modsetMatches(s.Set, hv) {
						out = append(out, &Stmt{Kind: SHavoc, Var: hv, Sort: f.Vars[hv], Note: s.Note})
					}
				}
			case SHavocObj:
				for _, hv := range f.heapVarsOfStruct(s.Struct) {
					fresh++
					tmp := fmt.Sprintf("$hv%d", fresh)
					es := arrayElemSort(f.Vars[hv])
					f.declare(tmp, es)
					out = append(out, &Stmt{Kind: SHavoc, Var: tmp, Sort: es})
					out = append(out, &Stmt{Kind: SAssign, Var: hv, Sort: f.Vars[hv],
						E: Store(V(hv, f.Vars[hv]), s.Ref, V(tmp, es)), Note: s.Note})
				}
			case SAllocZero:
				for _, hv := range f.heapVarsOfStruct(s.Struct) {
					out = append(out, &Stmt{Kind: SAssign, Var: hv, Sort: f.Vars[hv],
						E: Store(V(hv, f.Vars[hv]), s.Ref, zero(hv)), Note: s.Note})
				}
			default:
				out = append(out, s)
			}
		}
		b.Stmts = out
	}
}

// fillLoopHavocs inserts, at every cut loop head, a havoc of each variable assigned in the loop.
func (f *FuncIVL) fillLoopHavocs() {
	for _, b := range f.Blocks {
		if b.Loop == nil {
			continue
		}
		targets := map[string]bool{}
		for id := b.Loop.FirstBody; id <= b.Loop.LastBody && id < len(f.Blocks); id++ {
			if id == b.Loop.ExitID || id == b.ID {
				continue
			}
			for _, s := range f.Blocks[id].Stmts {
				if s.Kind == SAssign || s.Kind == SHavoc {
					targets[s.Var] = true
				}
			}
		}
		// statements in the head block after the havoc point also count
		for _, s := range b.Stmts[b.Loop.HavocAt:] {
			if s.Kind == SAssign || s.Kind == SHavoc {
				targets[s.Var] = true
			}
		}
		for _, x := range b.Loop.Extra {
			targets[x] = true
		}
		var names []string
		for v := range targets {
			names = append(names, v)
		}
		sort.Strings(names)
		var hav []*Stmt
		for _, v := range names {
			if strings.HasSuffix(v, "@old") {
				continue
			}
			if v == "$alloc" {
				// allocation counter only grows
				hav = append(hav, &Stmt{Kind: SAssign, Var: "$alloc@pre" + fmt.Sprint(b.ID), Sort: "Int", E: V("$alloc", "Int")})
				f.declare("$alloc@pre"+fmt.Sprint(b.ID), "Int")
				hav = append(hav, &Stmt{Kind: SHavoc, Var: v, Sort: "Int"})
				hav = append(hav, &Stmt{Kind: SAssume, E: Le(V("$alloc@pre"+fmt.Sprint(b.ID), "Int"), V("$alloc", "Int"))})
				continue
			}
			hav = append(hav, &Stmt{Kind: SHavoc, Var: v, Sort: f.Vars[v], Note: "loop"})
		}
		stmts := append([]*Stmt{}, b.Stmts[:b.Loop.HavocAt]...)
		stmts = append(stmts, hav...)
		stmts = append(stmts, b.Stmts[b.Loop.HavocAt:]...)
		b.Stmts = stmts
	}
}
