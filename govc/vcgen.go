package main

import (
	"fmt"
	"sort"
	"strings"
)

// Query is one SMT query: the obligation holds iff the query is unsat
// (cover/canary queries are expected to be sat).
type Query struct {
	Ob    *Oblig
	Text  string
	Focused string // same query with the quantified hypotheses of other clause families hidden ("" if none); unsat is conclusive
	Decls []string // declared incarnations (for model extraction)
	IncOf map[string]string // IVL variable -> incarnation visible at the assertion
}

type passBlock struct {
	reach   string            // Bool const: block entered
	out     string            // Bool const: block left normally
	incIn   map[string]int    // incarnation at entry
	incOut  map[string]int    // incarnation at exit
	lines   []pline           // declarations and assertions of this block
	queries []*pendingQuery
	preds   []*Block
}

// pline: one line of the passive program; alt replaces it when hypotheses of family tag are hidden.
type pline struct {
	text, tag, alt string
}

type pendingQuery struct {
	ob    *Oblig
	cond  string // path condition up to the assert (Bool term text)
	goal  string
	lineN int // number of block lines to include
	inc   map[string]int
}

// generateVCs passifies the acyclic IVL and produces one query per assertion.
func generateVCs(p *Prog, f *FuncIVL) ([]*Query, error) {
	order, err := topoOrder(f)
	if err != nil {
		return nil, err
	}
	preds := map[int][]*Block{}
	for _, b := range order {
		for _, s := range b.Succs {
			preds[s.ID] = append(preds[s.ID], b)
		}
	}
	pbs := map[int]*passBlock{}
	counter := map[string]int{}
	incName := func(v string, n int) string {
		if n == 0 {
			return v
		}
		return fmt.Sprintf("%s!%d", v, n)
	}
	var queries []*Query
	for _, b := range order {
		pb := &passBlock{incIn: map[string]int{}}
		pbs[b.ID] = pb
		pb.reach = fmt.Sprintf("$R%d", b.ID)
		pb.out = fmt.Sprintf("$O%d", b.ID)
		ps := preds[b.ID]
		// edge condition: the predecessor was left normally and chose this successor. Branches without
		// mutually exclusive guards (select, nondeterministic choices) are made exclusive by a choice variable.
		edge := func(q *Block) string {
			if len(q.Succs) <= 1 {
				return pbs[q.ID].out
			}
			var alts []string
			for k, sc := range q.Succs {
				if sc == b {
					alts = append(alts, fmt.Sprintf("(= $ch%d %d)", q.ID, k))
				}
			}
			c := alts[0]
			if len(alts) > 1 {
				c = "(or " + strings.Join(alts, " ") + ")"
			}
			return "(and " + pbs[q.ID].out + " " + c + ")"
		}
		// distinct predecessors only
		var ups []*Block
		seenP := map[int]bool{}
		for _, q := range ps {
			if !seenP[q.ID] {
				seenP[q.ID] = true
				ups = append(ups, q)
			}
		}
		ps = ups
		var reachDef string
		if b == f.Entry {
			reachDef = "true"
		} else if len(ps) == 0 {
			reachDef = "false"
		} else {
			var outs []string
			for _, q := range ps {
				outs = append(outs, edge(q))
			}
			if len(outs) == 1 {
				reachDef = outs[0]
			} else {
				reachDef = "(or " + strings.Join(outs, " ") + ")"
			}
		}
		pb.lines = append(pb.lines, plineOf("(define-fun %s () Bool %s)", pb.reach, reachDef))
		// merge incarnations
		if len(ps) == 1 {
			for k, v := range pbs[ps[0].ID].incOut {
				pb.incIn[k] = v
			}
		} else if len(ps) > 1 {
			vars := map[string]bool{}
			for _, q := range ps {
				for k := range pbs[q.ID].incOut {
					vars[k] = true
				}
			}
			names := make([]string, 0, len(vars))
			for k := range vars {
				names = append(names, k)
			}
			sort.Strings(names)
			for _, v := range names {
				same := true
				first := pbs[ps[0].ID].incOut[v]
				for _, q := range ps[1:] {
					if pbs[q.ID].incOut[v] != first {
						same = false
						break
					}
				}
				if same {
					pb.incIn[v] = first
					continue
				}
				counter[v]++
				n := counter[v]
				pb.incIn[v] = n
				srt := f.Vars[v]
				pb.lines = append(pb.lines, plineOf("(declare-const %s %s)", smtName(incName(v, n)), srt))
				for _, q := range ps {
					pb.lines = append(pb.lines, plineOf("(assert (=> %s (= %s %s)))", edge(q),
						smtName(incName(v, n)), smtName(incName(v, pbs[q.ID].incOut[v]))))
				}
			}
		}
		cur := map[string]int{}
		for k, v := range pb.incIn {
			cur[k] = v
		}
		incFn := func(v string) string { return incName(v, cur[v]) }
		cond := pb.reach
		condN := 0
		for _, s := range b.Stmts {
			switch s.Kind {
			case SAssign:
				var sb strings.Builder
				s.E.Print(&sb, incFn)
				counter[s.Var]++
				n := counter[s.Var]
				srt := f.Vars[s.Var]
				if srt == "" {
					return nil, fmt.Errorf("%s: variable %s has no sort", f.Key, s.Var)
				}
				pb.lines = append(pb.lines, plineOf("(declare-const %s %s)", smtName(incName(s.Var, n)), srt))
				pb.lines = append(pb.lines, plineOf("(assert (= %s %s))", smtName(incName(s.Var, n)), sb.String()))
				cur[s.Var] = n
			case SHavoc:
				counter[s.Var]++
				n := counter[s.Var]
				srt := f.Vars[s.Var]
				if srt == "" {
					return nil, fmt.Errorf("%s: variable %s has no sort", f.Key, s.Var)
				}
				pb.lines = append(pb.lines, plineOf("(declare-const %s %s)", smtName(incName(s.Var, n)), srt))
				cur[s.Var] = n
			case SAssume:
				var sb strings.Builder
				s.E.Print(&sb, incFn)
				condN++
				cn := fmt.Sprintf("$C%d_%d", b.ID, condN)
				ln := plineOf("(define-fun %s () Bool (and %s %s))", cn, cond, sb.String())
				if s.Tag != "" && hasQuantifier(s.E) {
					ln.tag = s.Tag
					ln.alt = fmt.Sprintf("(define-fun %s () Bool %s)", cn, cond)
				}
				pb.lines = append(pb.lines, ln)
				cond = cn
			case SAssert:
				var sb strings.Builder
				s.E.Print(&sb, incFn)
				snapshot := map[string]int{}
				for k, v := range cur {
					snapshot[k] = v
				}
				pb.queries = append(pb.queries, &pendingQuery{ob: s.Ob, cond: cond, goal: sb.String(), lineN: len(pb.lines), inc: snapshot})
				if !s.Ob.Canary && !s.Ob.Cover && s.Ob.Kind != "ensures" && s.Ob.Kind != "frame" {
					// assert-then-assume
					condN++
					cn := fmt.Sprintf("$C%d_%d", b.ID, condN)
					ln := plineOf("(define-fun %s () Bool (and %s %s))", cn, cond, sb.String())
					if s.Ob.Tag != "" && hasQuantifier(s.E) {
						ln.tag = s.Ob.Tag
						ln.alt = fmt.Sprintf("(define-fun %s () Bool %s)", cn, cond)
					}
					pb.lines = append(pb.lines, ln)
					cond = cn
				}
			default:
				return nil, fmt.Errorf("%s: pseudo statement not expanded", f.Key)
			}
		}
		pb.lines = append(pb.lines, plineOf("(define-fun %s () Bool %s)", pb.out, cond))
		pb.incOut = cur
		pb.preds = ps
	}
	// header: sorts, functions, initial incarnations
	var hdr strings.Builder
	hdr.WriteString("(set-option :produce-models true)\n(set-logic ALL)\n")
	// only the function symbols the passive program mentions (and, transitively, those their axioms mention):
	// axioms of unrelated ghost functions would burden every query
	var body strings.Builder
	for _, b := range order {
		for _, ln := range pbs[b.ID].lines {
			body.WriteString(ln.text)
			body.WriteString("\n")
		}
		for _, q := range pbs[b.ID].queries {
			body.WriteString(q.goal)
			body.WriteString("\n")
		}
	}
	used := p.reg.usedIn(body.String())
	p.reg.Emit(&hdr, used)
	{
		// sentinel values (package-level error variables): pairwise distinct, stated over those mentioned
		var names []string
		for n := range p.sentinels {
			if used[n] {
				names = append(names, smtName(n))
			}
		}
		sort.Strings(names)
		if len(names) > 1 {
			hdr.WriteString("(assert (distinct " + strings.Join(names, " ") + "))\n")
		}
	}
	var vnames []string
	for v := range f.Vars {
		vnames = append(vnames, v)
	}
	sort.Strings(vnames)
	for _, v := range vnames {
		fmt.Fprintf(&hdr, "(declare-const %s %s)\n", smtName(v), f.Vars[v])
	}
	for _, b := range order {
		if len(b.Succs) > 1 {
			fmt.Fprintf(&hdr, "(declare-const $ch%d Int)\n", b.ID)
		}
	}
	header := hdr.String()
	// ancestors per block
	anc := map[int]map[int]bool{}
	for _, b := range order {
		a := map[int]bool{}
		for _, q := range preds[b.ID] {
			a[q.ID] = true
			for k := range anc[q.ID] {
				a[k] = true
			}
		}
		anc[b.ID] = a
	}
	pos := map[int]int{}
	for i, b := range order {
		pos[b.ID] = i
	}
	for _, b := range order {
		pb := pbs[b.ID]
		if len(pb.queries) == 0 {
			continue
		}
		var ancIDs []int
		for k := range anc[b.ID] {
			ancIDs = append(ancIDs, k)
		}
		sort.Slice(ancIDs, func(i, j int) bool { return pos[ancIDs[i]] < pos[ancIDs[j]] })
		var preLines []pline
		for _, id := range ancIDs {
			preLines = append(preLines, pbs[id].lines...)
		}
		assemble := func(q *pendingQuery, focus string) (string, bool) {
			var sb strings.Builder
			sb.WriteString(header)
			hidden := false
			keep := map[string]bool{focus: true}
			for _, u := range q.ob.Uses {
				keep[u] = true
			}
			put := func(ln pline) {
				if focus != "" && ln.tag != "" && !keep[ln.tag] {
					sb.WriteString(ln.alt)
					hidden = true
				} else {
					sb.WriteString(ln.text)
				}
				sb.WriteString("\n")
			}
			for _, ln := range preLines {
				put(ln)
			}
			for _, ln := range pb.lines[:q.lineN] {
				put(ln)
			}
			if q.ob.Cover || q.ob.Canary {
				fmt.Fprintf(&sb, "(assert %s)\n", q.cond)
			} else {
				fmt.Fprintf(&sb, "(assert %s)\n(assert (not %s))\n", q.cond, q.goal)
			}
			sb.WriteString("(check-sat)\n")
			return sb.String(), hidden
		}
		for _, q := range pb.queries {
			text, _ := assemble(q, "")
			incOf := map[string]string{}
			for k, v := range q.inc {
				incOf[k] = incName(k, v)
			}
			qq := &Query{Ob: q.ob, Text: text, IncOf: incOf}
			if q.ob.Tag != "" && !q.ob.Cover && !q.ob.Canary {
				if ft, hid := assemble(q, q.ob.Tag); hid {
					qq.Focused = ft
				}
			}
			queries = append(queries, qq)
		}
	}
	return queries, nil
}

func plineOf(format string, a ...interface{}) pline {
	return pline{text: fmt.Sprintf(format, a...)}
}

func topoOrder(f *FuncIVL) ([]*Block, error) {
	state := map[int]int{}
	var order []*Block
	var visit func(b *Block) error
	visit = func(b *Block) error {
		switch state[b.ID] {
		case 1:
			return fmt.Errorf("%s: cycle in IVL at block %d (%s)", f.Key, b.ID, b.Name)
		case 2:
			return nil
		}
		state[b.ID] = 1
		for _, s := range b.Succs {
			if err := visit(s); err != nil {
				return err
			}
		}
		state[b.ID] = 2
		order = append(order, b)
		return nil
	}
	if err := visit(f.Entry); err != nil {
		return nil, err
	}
	// reverse post-order
	for i, j := 0, len(order)-1; i < j; i, j = i+1, j-1 {
		order[i], order[j] = order[j], order[i]
	}
	return order, nil
}

func hasQuantifier(t *Term) bool {
	if t == nil {
		return false
	}
	if t.Op == "forall" || t.Op == "exists" {
		return true
	}
	for _, a := range t.Args {
		if hasQuantifier(a) {
			return true
		}
	}
	return false
}
