package main

import (
	"bufio"
	"fmt"
	"go/ast"
	"os"
	"regexp"
	"strconv"
	"strings"
)

type Clause struct {
	Kind  string // requires, ensures, invariant, decreases, effect, assert
	Label string
	Src   string
	Expr  ast.Expr
	Props []string // clause-level property tags (override function level if non-empty)
	Uses  []string // other clause families whose hypotheses stay visible when this clause is proved in focus
	Line  int
	File  string
}

type LoopSpec struct {
	Invs        []*Clause
	Decreases   *Clause
	IterEnsures []*Clause // checked at the end of every iteration; it(e) is e at the start of the iteration
	Assumes     []*Clause // assumed at the loop head without proof (stated assumptions, reported in the evidence)
	Name        string    // loops addressed by name (label, or loopname binding) instead of by ordinal
}

// boundedCheck: a bounded stand-in for code outside the verifier's reach.
type boundedCheck struct {
	Label string
	File  string
	Test  string
	Props []string
}

// leanProof: a Lean file proving the axioms of one label.
type leanProof struct {
	Label string
	File  string
	Props []string
}

// LockInv is one clause of a monitor invariant.
type LockInv struct {
	Self string
	C    *Clause
}

type Contract struct {
	Key          string
	Header       string
	RecvName     string
	Params       []string
	Returns      []string
	Props        []string
	Requires     []*Clause
	Ensures      []*Clause
	Effects      []*Clause // ghost definitional effects: assumed at call sites, not verified in the body
	Modifies     []string
	HasModifies  bool
	Loops        map[int]*LoopSpec
	NamedLoops   map[string]*LoopSpec
	RangeNames   map[string]string // source text of a ranged expression -> loop name (loopname directive)
	LocalNames   map[string]string // alias -> source text of the defining expression (localname directive)
	Pure         bool
	MathInts     bool      // int/int64 arithmetic treated as mathematical in this function (stated assumption)
	AcqAssumes   []*Clause // assumed at every lock acquisition of the function (stated environment assumption)
	PureDef      *Clause   // explicit definition of a pure function
	Trusted      bool
	Assumed      []*Clause // clauses assumed at call sites and not verified against the body (listed in the evidence)
	NoInline     bool
	Refines      string
	NoSafety     bool
	NoPanic      string // label of the nopanic clause
	Auto         bool
	InlineCalls  bool                 // callers inline the body (generic helpers whose effect depends on the dynamic type of an argument)
	DecoderFrame bool                 // frame = syntactic mod-set, except decoder state which changes only at the decoder parameters
	PerReturn    bool                 // check the ensures clauses at every return statement instead of once at the merged exit
	AutoInv      *Clause              // clause used as invariant of every loop (sweep)
	CallSites    map[string][]*Clause // callee name -> obligations / ghost effects at every call of it inside this function
	CallSiteMods map[string][]string
	File         string
	Line         int
}

type ChanSpec struct {
	Key      string // Type.field
	ElemVar  string
	OnSend   []*Clause // requires/ensures/effect evaluated at send sites with ElemVar bound
	OnRecv   []*Clause // assumed on receive
	Modifies []string
}

var reFuncHdr = regexp.MustCompile(`^func\s*(?:\(\s*(\w+)\s+\*?([\w.]+)\s*\)\s*)?([\w#.]+)\s*(?:\(([^)]*)\))?\s*(.*)$`)
var reClause = regexp.MustCompile(`^(requires|ensures|effect|assumed|assume_acq|assume|invariant|decreases|assert|iter_ensures)(?:\[([\w@ ,.+-]+)\])?\s+(.*)$`)
var reLoop = regexp.MustCompile(`^loop\s+(\w+)\s*:\s*(.*)$`)

func (p *Prog) loadContracts(files ...string) error {
	for _, f := range files {
		if _, err := os.Stat(f); err != nil {
			continue
		}
		if err := p.loadContractFile(f); err != nil {
			return err
		}
	}
	return nil
}

func (p *Prog) loadContractFile(path string) error {
	fh, err := os.Open(path)
	if err != nil {
		return err
	}
	defer fh.Close()
	prefix := ""
	if strings.Contains(path, "/mocks/") {
		prefix = "mocks."
	}
	sc := bufio.NewScanner(fh)
	sc.Buffer(make([]byte, 1<<20), 1<<20)
	var cur *Contract
	var curChan *ChanSpec
	var lastClause *Clause
	lineNo := 0
	mkClause := func(kind, label, src string) (*Clause, error) {
		c := &Clause{Kind: kind, Src: src, Line: lineNo, File: path}
		for _, part := range strings.FieldsFunc(label, func(r rune) bool { return r == ' ' || r == ',' }) {
			if strings.HasPrefix(part, "@") {
				c.Props = append(c.Props, part[1:])
			} else if strings.HasPrefix(part, "+") {
				c.Uses = append(c.Uses, part[1:])
			} else {
				c.Label = part
			}
		}
		return c, nil
	}
	finishClause := func(c *Clause) error {
		if c == nil || c.Expr != nil {
			return nil
		}
		e, err := parseSpec(c.Src)
		if err != nil {
			return fmt.Errorf("%s:%d: %v", path, c.Line, err)
		}
		c.Expr = e
		return nil
	}
	var pending []*Clause
	for sc.Scan() {
		lineNo++
		line := strings.TrimSpace(sc.Text())
		if !strings.HasPrefix(line, "//@") {
			continue
		}
		line = strings.TrimSpace(line[3:])
		if line == "" || strings.HasPrefix(line, "--") {
			continue
		}
		if strings.HasPrefix(line, "|") { // continuation
			if lastClause != nil {
				lastClause.Src += " " + strings.TrimSpace(line[1:])
			}
			continue
		}
		if strings.HasPrefix(line, "func") {
			m := reFuncHdr.FindStringSubmatch(line)
			if m == nil {
				return fmt.Errorf("%s:%d: bad func header %q", path, lineNo, line)
			}
			cur = &Contract{Loops: map[int]*LoopSpec{}, File: path, Line: lineNo, Header: line}
			curChan = nil
			cur.RecvName = m[1]
			key := prefix
			if m[2] != "" {
				key += m[2] + "."
			}
			key += m[3]
			cur.Key = key
			if strings.TrimSpace(m[4]) != "" {
				for _, a := range strings.Split(m[4], ",") {
					cur.Params = append(cur.Params, strings.TrimSpace(a))
				}
			}
			rest := strings.Fields(m[5])
			for i := 0; i < len(rest); i++ {
				switch rest[i] {
				case "props":
					for i+1 < len(rest) && regexp.MustCompile(`^C\d+$`).MatchString(rest[i+1]) {
						cur.Props = append(cur.Props, rest[i+1])
						i++
					}
				case "pure":
					cur.Pure = true
				case "trusted":
					cur.Trusted = true
				case "noinline":
					cur.NoInline = true
				case "nosafety":
					cur.NoSafety = true
				}
			}
			if old, dup := p.contracts[key]; dup {
				return fmt.Errorf("%s:%d: duplicate contract for %s (first at line %d)", path, lineNo, key, old.Line)
			}
			p.contracts[key] = cur
			lastClause = nil
			continue
		}
		if strings.HasPrefix(line, "lemma") {
			// lemma[name] props Cxx Cyy : expr
			m := regexp.MustCompile(`^lemma\[([\w.-]+)\]\s+props((?:\s+C\d+)+)\s*:\s*(.*)$`).FindStringSubmatch(line)
			if m == nil {
				return fmt.Errorf("%s:%d: bad lemma", path, lineNo)
			}
			c, _ := mkClause("lemma", m[1], m[3])
			c.Props = strings.Fields(m[2])
			p.lemmas = append(p.lemmas, c)
			pending = append(pending, c)
			lastClause = c
			cur = nil
			curChan = nil
			continue
		}
		if strings.HasPrefix(line, "ghost func ") {
			// ghost func name(T1, T2) R
			m := regexp.MustCompile(`^ghost func (\w+)\(([^)]*)\)\s*([\w.*\[\]]+)$`).FindStringSubmatch(line)
			if m == nil {
				return fmt.Errorf("%s:%d: bad ghost func", path, lineNo)
			}
			var ats []string
			for _, a := range strings.Split(m[2], ",") {
				if a = strings.TrimSpace(a); a != "" {
					ats = append(ats, a)
				}
			}
			p.ghostFunDecls = append(p.ghostFunDecls, ghostFunDecl{m[1], ats, m[3]})
			continue
		}
		if strings.HasPrefix(line, "axiom ") || strings.HasPrefix(line, "axiom[") {
			m := regexp.MustCompile(`^axiom\[(\w+)\]\s+(.*)$`).FindStringSubmatch(line)
			if m == nil {
				return fmt.Errorf("%s:%d: bad axiom (axiom[ghostfun] expr)", path, lineNo)
			}
			c, _ := mkClause("axiom", m[1], m[2])
			p.axioms = append(p.axioms, c)
			pending = append(pending, c)
			lastClause = c
			cur = nil
			curChan = nil
			continue
		}
		if strings.HasPrefix(line, "guarded ") {
			// guarded Type.lockField: f1, f2, ...
			m := regexp.MustCompile(`^guarded ([\w.]+)\s*:\s*(.*)$`).FindStringSubmatch(line)
			if m == nil {
				return fmt.Errorf("%s:%d: bad guarded declaration", path, lineNo)
			}
			var fields []string
			for _, f := range strings.Split(m[2], ",") {
				fields = append(fields, strings.TrimSpace(f))
			}
			p.guardedBy[prefix+m[1]] = fields
			continue
		}
		if strings.HasPrefix(line, "bounded[") {
			// bounded[label] <test file relative to the verification directory> <TestName> props Cxx ...:
			// a bounded stand-in (NOT a proof) run on the real code through go test -overlay
			m := regexp.MustCompile(`^bounded\[(\w+)\]\s+(\S+)\s+(\w+)\s+props\s+(.*)$`).FindStringSubmatch(line)
			if m == nil {
				return fmt.Errorf("%s:%d: bad bounded directive", path, lineNo)
			}
			p.boundedChecks = append(p.boundedChecks, boundedCheck{Label: m[1], File: m[2], Test: m[3], Props: strings.Fields(m[4])})
			continue
		}
		if strings.HasPrefix(line, "wiredual[") {
			// wiredual[balanced] props C10: only the named clause(s) of the relational contract serve the property
			m := regexp.MustCompile(`^wiredual\[([\w ,]+)\]\s+props\s+(.*)$`).FindStringSubmatch(line)
			if m == nil {
				return fmt.Errorf("%s:%d: bad wiredual directive", path, lineNo)
			}
			for _, pr := range strings.Fields(m[2]) {
				p.wireProps = append(p.wireProps, pr)
				if p.wireTypes == nil {
					p.wireTypes = map[string]map[string]bool{}
				}
				p.wireTypes[pr] = nil
				if p.wireClauses == nil {
					p.wireClauses = map[string]map[string]bool{}
				}
				set := map[string]bool{}
				for _, c := range strings.FieldsFunc(m[1], func(r rune) bool { return r == ',' || r == ' ' }) {
					set[c] = true
				}
				p.wireClauses[pr] = set
			}
			continue
		}
		if strings.HasPrefix(line, "wiredual ") {
			// wiredual props Cxx ...: the relational encode/decode contract (wire.go) for every type of the package
			// with an encode(packetEncoder, ...) and a decode(packetDecoder, ...) method
			// optional restriction to some types: wiredual props C04: ProduceRequest Records ...
			m := regexp.MustCompile(`^wiredual\s+props\s+([^:]*)(?::\s*(.*))?$`).FindStringSubmatch(line)
			if m == nil {
				return fmt.Errorf("%s:%d: bad wiredual directive", path, lineNo)
			}
			for _, pr := range strings.Fields(m[1]) {
				p.wireProps = append(p.wireProps, pr)
				if p.wireTypes == nil {
					p.wireTypes = map[string]map[string]bool{}
				}
				if strings.TrimSpace(m[2]) == "" {
					p.wireTypes[pr] = nil
				} else {
					if _, all := p.wireTypes[pr]; all && p.wireTypes[pr] == nil {
						continue
					}
					set := map[string]bool{}
					for _, t := range strings.Fields(m[2]) {
						set[t] = true
					}
					p.wireTypes[pr] = set
				}
			}
			continue
		}
		if strings.HasPrefix(line, "lean[") {
			// lean[label] <file relative to the verification directory> props Cxx ...: the axioms labelled
			// <label> are theorems of that Lean file, which the check compiles with lean (Lean 4 + Mathlib)
			m := regexp.MustCompile(`^lean\[(\w+)\]\s+(\S+)\s+props\s+(.*)$`).FindStringSubmatch(line)
			if m == nil {
				return fmt.Errorf("%s:%d: bad lean directive", path, lineNo)
			}
			p.leanProofs = append(p.leanProofs, leanProof{Label: m[1], File: m[2], Props: strings.Fields(m[3])})
			continue
		}
		if strings.HasPrefix(line, "lockinv") {
			// lockinv[label] Type.lockField (self): expr  -- monitor invariant: assumed when the lock is acquired,
			// proved when the write lock is released
			m := regexp.MustCompile(`^lockinv(?:\[([\w@ ,.+-]+)\])?\s+([\w.]+)\s*\((\w+)\)\s*:\s*(.*)$`).FindStringSubmatch(line)
			if m == nil {
				return fmt.Errorf("%s:%d: bad lockinv declaration", path, lineNo)
			}
			c, _ := mkClause("lockinv", m[1], m[4])
			p.lockInvs[prefix+m[2]] = append(p.lockInvs[prefix+m[2]], &LockInv{Self: m[3], C: c})
			pending = append(pending, c)
			lastClause = c
			cur = nil
			curChan = nil
			continue
		}
		if strings.HasPrefix(line, "ghost field ") {
			// ghost field Type.name gotype
			f := strings.Fields(line)
			if len(f) != 4 || !strings.Contains(f[2], ".") {
				return fmt.Errorf("%s:%d: bad ghost field", path, lineNo)
			}
			tf := strings.SplitN(f[2], ".", 2)
			tn := prefix + tf[0]
			if p.ghostFields[tn] == nil {
				p.ghostFields[tn] = map[string]string{}
			}
			p.ghostFields[tn][tf[1]] = f[3]
			continue
		}
		if strings.HasPrefix(line, "channel ") {
			// channel Type.field elem
			f := strings.Fields(line)
			if len(f) < 3 {
				return fmt.Errorf("%s:%d: bad channel spec", path, lineNo)
			}
			curChan = &ChanSpec{Key: prefix + f[1], ElemVar: f[2]}
			p.chanSpecs[curChan.Key] = curChan
			cur = nil
			lastClause = nil
			continue
		}
		if curChan != nil {
			// "send requires ...", "send effect ...", "recv ensures ..."
			f := strings.SplitN(line, " ", 2)
			if len(f) == 2 && (f[0] == "send" || f[0] == "recv") {
				rest := strings.TrimSpace(f[1])
				if strings.HasPrefix(rest, "modifies ") {
					for _, mm := range strings.Split(rest[len("modifies "):], ",") {
						curChan.Modifies = append(curChan.Modifies, strings.TrimSpace(mm))
					}
					continue
				}
				m := reClause.FindStringSubmatch(rest)
				if m == nil {
					return fmt.Errorf("%s:%d: bad channel clause %q", path, lineNo, line)
				}
				c, _ := mkClause(m[1], m[2], m[3])
				pending = append(pending, c)
				lastClause = c
				if f[0] == "send" {
					curChan.OnSend = append(curChan.OnSend, c)
				} else {
					curChan.OnRecv = append(curChan.OnRecv, c)
				}
				continue
			}
			return fmt.Errorf("%s:%d: unexpected line in channel spec: %q", path, lineNo, line)
		}
		if cur == nil {
			return fmt.Errorf("%s:%d: clause outside contract: %q", path, lineNo, line)
		}
		switch {
		case strings.HasPrefix(line, "returns "):
			for _, a := range strings.Split(line[len("returns "):], ",") {
				cur.Returns = append(cur.Returns, strings.TrimSpace(a))
			}
		case strings.HasPrefix(line, "props "):
			cur.Props = append(cur.Props, strings.Fields(line[len("props "):])...)
		case strings.HasPrefix(line, "modifies"):
			cur.HasModifies = true
			rest := strings.TrimSpace(line[len("modifies"):])
			if rest != "" && rest != "nothing" {
				for _, a := range strings.Split(rest, ",") {
					cur.Modifies = append(cur.Modifies, strings.TrimSpace(a))
				}
			}
		case line == "pure":
			cur.Pure = true
		case line == "trusted":
			cur.Trusted = true
		case line == "noinline":
			cur.NoInline = true
		case strings.HasPrefix(line, "nopanic["):
			// nopanic[label]: the function contains no reachable panic(...): clause <label>, trivially discharged
			// when there is none, one more instance (which must be unreachable) per panic call
			m := regexp.MustCompile(`^nopanic\[(\w+)\]$`).FindStringSubmatch(line)
			if m == nil {
				return fmt.Errorf("%s:%d: bad nopanic directive", path, lineNo)
			}
			cur.NoPanic = m[1]
		case line == "nosafety":
			cur.NoSafety = true
		case line == "math_ints":
			cur.MathInts = true
		case line == "per_return":
			cur.PerReturn = true
		case line == "decoder_frame":
			cur.DecoderFrame = true
		case line == "inline_calls":
			cur.InlineCalls = true
		case strings.HasPrefix(line, "refines "):
			cur.Refines = prefix + strings.TrimSpace(line[len("refines "):])
		case strings.HasPrefix(line, "define "):
			c, _ := mkClause("define", "", strings.TrimSpace(line[len("define "):]))
			cur.PureDef = c
			cur.Pure = true
			pending = append(pending, c)
			lastClause = c
		case strings.HasPrefix(line, "callsite "):
			m := regexp.MustCompile(`^callsite\s+([\w.#]+)\s*:\s*(.*)$`).FindStringSubmatch(line)
			if m == nil {
				return fmt.Errorf("%s:%d: bad callsite clause", path, lineNo)
			}
			if strings.HasPrefix(m[2], "modifies ") {
				if cur.CallSiteMods == nil {
					cur.CallSiteMods = map[string][]string{}
				}
				for _, mm := range strings.Split(m[2][len("modifies "):], ",") {
					cur.CallSiteMods[m[1]] = append(cur.CallSiteMods[m[1]], strings.TrimSpace(mm))
				}
				continue
			}
			cm := reClause.FindStringSubmatch(m[2])
			if cm == nil || (cm[1] != "requires" && cm[1] != "effect") {
				return fmt.Errorf("%s:%d: callsite clause must be `requires`, `effect` or `modifies`", path, lineNo)
			}
			c, _ := mkClause("callsite-"+cm[1], cm[2], cm[3])
			if cur.CallSites == nil {
				cur.CallSites = map[string][]*Clause{}
			}
			cur.CallSites[m[1]] = append(cur.CallSites[m[1]], c)
			pending = append(pending, c)
			lastClause = c
		case strings.HasPrefix(line, "localname "):
			// localname <alias>: := <expr>   -- <alias> names the local variable that is defined by `x := <expr>`
			// in the function (or in the function enclosing a closure), whatever the variable is called there
			m := regexp.MustCompile(`^localname\s+(\w+)\s*:\s*:=\s*(.*)$`).FindStringSubmatch(line)
			if m == nil {
				return fmt.Errorf("%s:%d: bad localname directive", path, lineNo)
			}
			if cur.LocalNames == nil {
				cur.LocalNames = map[string]string{}
			}
			cur.LocalNames[m[1]] = strings.TrimSpace(m[2])
		case strings.HasPrefix(line, "loopname "):
			// loopname <name>: range <expr>   -- the for-range statement over <expr> is addressed as "loop <name>:"
			// (robust against loops being added or removed elsewhere in the function)
			m := regexp.MustCompile(`^loopname\s+(\w+)\s*:\s*range\s+(.*)$`).FindStringSubmatch(line)
			if m == nil {
				return fmt.Errorf("%s:%d: bad loopname directive", path, lineNo)
			}
			if cur.RangeNames == nil {
				cur.RangeNames = map[string]string{}
			}
			cur.RangeNames[strings.ReplaceAll(m[2], " ", "")] = m[1]
		case strings.HasPrefix(line, "loop "):
			m := reLoop.FindStringSubmatch(line)
			if m == nil {
				return fmt.Errorf("%s:%d: bad loop clause", path, lineNo)
			}
			cm := reClause.FindStringSubmatch(m[2])
			if cm == nil {
				return fmt.Errorf("%s:%d: bad loop clause body %q", path, lineNo, m[2])
			}
			c, _ := mkClause(cm[1], cm[2], cm[3])
			var ls *LoopSpec
			if k, err := strconv.Atoi(m[1]); err == nil {
				ls = cur.Loops[k]
				if ls == nil {
					ls = &LoopSpec{}
					cur.Loops[k] = ls
				}
			} else {
				// loop named by a label (re-entered by goto)
				if cur.NamedLoops == nil {
					cur.NamedLoops = map[string]*LoopSpec{}
				}
				ls = cur.NamedLoops[m[1]]
				if ls == nil {
					ls = &LoopSpec{Name: m[1]}
					cur.NamedLoops[m[1]] = ls
				}
			}
			if cm[1] == "decreases" {
				ls.Decreases = c
			} else if cm[1] == "assume" {
				ls.Assumes = append(ls.Assumes, c)
			} else if cm[1] == "iter_ensures" {
				ls.IterEnsures = append(ls.IterEnsures, c)
			} else {
				ls.Invs = append(ls.Invs, c)
			}
			pending = append(pending, c)
			lastClause = c
		default:
			m := reClause.FindStringSubmatch(line)
			if m == nil {
				return fmt.Errorf("%s:%d: unrecognised contract line %q", path, lineNo, line)
			}
			c, _ := mkClause(m[1], m[2], m[3])
			switch m[1] {
			case "requires":
				cur.Requires = append(cur.Requires, c)
			case "ensures":
				cur.Ensures = append(cur.Ensures, c)
			case "effect":
				cur.Effects = append(cur.Effects, c)
			case "assumed":
				// a clause callers rely on that is not verified against the body (reported as an assumption, per clause)
				cur.Effects = append(cur.Effects, c)
				cur.Assumed = append(cur.Assumed, c)
			case "assume_acq":
				cur.AcqAssumes = append(cur.AcqAssumes, c)
			default:
				return fmt.Errorf("%s:%d: clause %s not allowed here", path, lineNo, m[1])
			}
			pending = append(pending, c)
			lastClause = c
		}
	}
	for _, c := range pending {
		if err := finishClause(c); err != nil {
			return err
		}
	}
	return sc.Err()
}

// clauseProps: property tags of a clause given its contract.
func clauseProps(ct *Contract, c *Clause) []string {
	if c != nil && len(c.Props) > 0 {
		return c.Props
	}
	return ct.Props
}

func hasProp(props []string, id string) bool {
	for _, p := range props {
		if p == id {
			return true
		}
	}
	return false
}

func (ct *Contract) hasCallSite(name string) bool {
	for k := range ct.CallSites {
		if k == name || strings.HasPrefix(k, name+"#") {
			return true
		}
	}
	for k := range ct.CallSiteMods {
		if k == name || strings.HasPrefix(k, name+"#") {
			return true
		}
	}
	return false
}
