package main

import (
	"flag"
	"fmt"
	"os"
	"sort"
	"strings"
)

const repoDir = "/repo"

func main() {
	if len(os.Args) < 2 {
		fmt.Fprintln(os.Stderr, "usage: govc verify|check|list ...")
		os.Exit(2)
	}
	switch os.Args[1] {
	case "verify":
		cmdVerify(os.Args[2:])
	case "check":
		cmdCheck(os.Args[2:])
	case "baseline":
		cmdBaseline(os.Args[2:])
	case "list":
		cmdList(os.Args[2:])
	case "wire":
		p := mustLoad()
		verbose := false
		want := map[string]bool{}
		for _, a := range os.Args[2:] {
			if a == "-v" {
				verbose = true
			} else {
				want[a] = true
			}
		}
		counts := map[string]int{}
		for _, pr := range p.wirePairs() {
			if len(want) > 0 && !want[pr.Type] {
				continue
			}
			v := p.wireCheck(pr)
			counts[v.Status]++
			fmt.Printf("%-8s %s %s [fields: %d compared, %d skipped, %d issues]\n", v.Status, v.Type, v.Detail, v.FieldCompared, v.FieldSkipped, len(v.FieldIssues))
			for _, is := range v.FieldIssues {
				fmt.Println("    FIELD", is)
			}
			if v.HasPush {
				fmt.Println("    BALANCE", v.Unbalanced)
			}
			if verbose {
				for _, ver := range v.Points {
					fmt.Printf("    v%d: %s\n", ver, v.Shapes[ver])
				}
			}
		}
		fmt.Println(counts)
	case "modset":
		p := mustLoad()
		for _, k := range os.Args[2:] {
			if fi := p.funcs[k]; fi != nil {
				var ks []string
				for m := range p.modset(fi) {
					ks = append(ks, m)
				}
				sort.Strings(ks)
				fmt.Println(k, ks)
			}
		}
	default:
		fmt.Fprintln(os.Stderr, "unknown command", os.Args[1])
		os.Exit(2)
	}
}

func mustLoad() *Prog {
	p, err := loadProg(repoDir)
	if err != nil {
		fmt.Fprintln(os.Stderr, "load:", err)
		os.Exit(2)
	}
	if err := p.loadContracts(repoDir+"/verif_contracts.go", repoDir+"/mocks/verif_contracts.go"); err != nil {
		fmt.Fprintln(os.Stderr, "contracts:", err)
		os.Exit(2)
	}
	if err := p.setupGhost(); err != nil {
		fmt.Fprintln(os.Stderr, "contracts:", err)
		os.Exit(2)
	}
	return p
}

func cmdList(args []string) {
	p := mustLoad()
	var keys []string
	for k := range p.contracts {
		keys = append(keys, k)
	}
	sort.Strings(keys)
	for _, k := range keys {
		fmt.Println(k, p.contracts[k].Props)
	}
}

func cmdVerify(args []string) {
	fs := flag.NewFlagSet("verify", flag.ExitOnError)
	timeout := fs.Int("timeout", 10, "solver timeout (s)")
	dump := fs.Bool("dump", false, "dump IVL")
	all := fs.Bool("all-solvers", false, "run all solvers")
	fs.Parse(args)
	p := mustLoad()
	bad := 0
	keys := fs.Args()
	if len(keys) == 2 && keys[0] == "lemmas" {
		rs := solveAll(p.lemmaQueries(keys[1]), "/verif/out/smt/lemmas", *timeout, *all, 16)
		for _, r := range rs {
			fmt.Printf("%-8s %-7s %5.2fs %s   %s\n", r.Status, r.Solver, r.TimeS, r.Ob.Name, r.Ob.Descr)
		}
		for _, w := range p.warnings {
			fmt.Println("warning:", w)
		}
		return
	}
	if len(keys) == 1 && keys[0] == "sweep" {
		keys = nil
		for _, fi := range p.sweepFunctions() {
			keys = append(keys, fi.Key)
		}
	}
	for _, key := range keys {
		fi := p.funcs[key]
		if fi == nil {
			fmt.Println("no such function:", key)
			bad++
			continue
		}
		ct := p.contractFor(fi)
		f, err := p.lowerTop(fi, ct)
		if err != nil {
			fmt.Println("lowering failed:", err)
			bad++
			continue
		}
		if *dump {
			dumpIVL(f)
		}
		qs, err := generateVCs(p, f)
		if err != nil {
			fmt.Println("vcgen failed:", err)
			bad++
			continue
		}
		rs := solveAll(qs, "/verif/out/smt/"+sanitizeFile(key), *timeout, *all, 16)
		for _, r := range rs {
			ok := r.Status == "unsat"
			if r.Ob.Canary || r.Ob.Cover {
				ok = r.Status == "sat"
			}
			mark := "ok  "
			if !ok {
				mark = "FAIL"
				bad++
			}
			fmt.Printf("%s %-8s %-7s %5.2fs %s   [%s] %s\n", mark, r.Status, r.Solver, r.TimeS, r.Ob.Name, r.Ob.Pos, r.Ob.Descr)
		}
		for _, u := range f.Unsupported {
			fmt.Println("  unsupported:", u)
		}
		var as []string
		for a := range f.Assumptions {
			as = append(as, a)
		}
		sort.Strings(as)
		for _, a := range as {
			fmt.Println("  assumes:", a)
		}
	}
	for _, w := range p.warnings {
		fmt.Println("warning:", w)
	}
	if bad > 0 {
		os.Exit(1)
	}
}

func dumpIVL(f *FuncIVL) {
	for _, b := range f.Blocks {
		var succ []string
		for _, s := range b.Succs {
			succ = append(succ, fmt.Sprint(s.ID))
		}
		fmt.Printf("B%d (%s) -> %s\n", b.ID, b.Name, strings.Join(succ, ","))
		for _, s := range b.Stmts {
			switch s.Kind {
			case SAssign:
				fmt.Printf("    %s := %s\n", s.Var, s.E)
			case SHavoc:
				fmt.Printf("    havoc %s\n", s.Var)
			case SAssume:
				fmt.Printf("    assume %s\n", s.E)
			case SAssert:
				fmt.Printf("    assert[%s] %s\n", s.Ob.Name, s.E)
			}
		}
	}
}
