package main

import (
	"fmt"
	"go/ast"
	"go/token"
	"go/types"
	"sort"
	"strings"
)

func (l *Lowerer) jump(to *Block) {
	if l.cur == nil {
		return
	}
	l.cur.Succs = append(l.cur.Succs, to)
	l.cur = nil
}

func (l *Lowerer) block(b *ast.BlockStmt) {
	if b == nil {
		return
	}
	l.stmts(b.List)
}

func (l *Lowerer) stmts(list []ast.Stmt) {
	for _, s := range list {
		l.stmt(s, "")
	}
}

func (l *Lowerer) stmt(s ast.Stmt, label string) {
	if l.cur == nil {
		// unreachable code still may contain labels
		if ls, ok := s.(*ast.LabeledStmt); ok {
			l.labeled(ls)
		}
		return
	}
	switch x := s.(type) {
	case *ast.EmptyStmt:
	case *ast.ExprStmt:
		if ce, ok := ast.Unparen(x.X).(*ast.CallExpr); ok {
			l.call(ce)
		} else {
			l.tr(x.X)
		}
	case *ast.AssignStmt:
		l.assignStmt(x)
	case *ast.IncDecStmt:
		pl := l.placeOf(x.X)
		v := l.load(pl)
		op := token.ADD
		if x.Tok == token.DEC {
			op = token.SUB
		}
		l.store(pl, l.intBinop(op, v, IntLit(1), pl.typ, x))
	case *ast.DeclStmt:
		gd, ok := x.Decl.(*ast.GenDecl)
		if !ok || gd.Tok != token.VAR {
			return
		}
		for _, sp := range gd.Specs {
			vs := sp.(*ast.ValueSpec)
			if len(vs.Values) == 1 && len(vs.Names) > 1 {
				ts, tys := l.call(ast.Unparen(vs.Values[0]).(*ast.CallExpr))
				for i, nm := range vs.Names {
					l.defineVar(nm, ts[i], tys[i])
				}
				continue
			}
			for i, nm := range vs.Names {
				if nm.Name == "_" {
					if i < len(vs.Values) {
						l.tr(vs.Values[i])
					}
					continue
				}
				obj := l.info().Defs[nm].(*types.Var)
				if i < len(vs.Values) {
					v, vt := l.tr(vs.Values[i])
					l.defineVar(nm, v, vt)
				} else if l.isBoxed(obj) {
					l.declareBoxed(obj)
				} else {
					pl := &place{kind: pLocal, name: l.localVar(obj), typ: obj.Type()}
					l.store(pl, l.p.zeroOf(obj.Type()))
				}
			}
		}
	case *ast.BlockStmt:
		l.block(x)
	case *ast.IfStmt:
		if x.Init != nil {
			l.stmt(x.Init, "")
		}
		thenB := l.f.newBlock("then")
		elseB := l.f.newBlock("else")
		join := l.f.newBlock("join")
		l.cond(x.Cond, thenB, elseB)
		l.cur = thenB
		l.block(x.Body)
		l.jump(join)
		l.cur = elseB
		if x.Else != nil {
			l.stmt(x.Else, "")
		}
		l.jump(join)
		l.cur = join
	case *ast.ForStmt:
		l.forStmt(x, label)
	case *ast.RangeStmt:
		l.rangeStmt(x, label)
	case *ast.SwitchStmt:
		l.switchStmt(x, label)
	case *ast.TypeSwitchStmt:
		l.typeSwitchStmt(x, label)
	case *ast.SelectStmt:
		l.selectStmt(x, label)
	case *ast.ReturnStmt:
		l.returnStmt(x)
	case *ast.BranchStmt:
		l.branchStmt(x)
	case *ast.LabeledStmt:
		l.labeled(x)
	case *ast.GoStmt:
		// goroutine: arguments are evaluated; the body runs concurrently (not modelled, A-conc)
		for _, a := range x.Call.Args {
			l.tr(a)
		}
		if fl, ok := ast.Unparen(x.Call.Fun).(*ast.FuncLit); ok {
			_ = fl
		} else if sel, ok := ast.Unparen(x.Call.Fun).(*ast.SelectorExpr); ok && !l.isPkgSel(sel) {
			l.tr(sel.X)
		}
		l.note("A-conc: goroutine bodies are verified separately; effects of spawned goroutines on the spawner are not modelled")
	case *ast.DeferStmt:
		l.deferStmt(x)
	case *ast.SendStmt:
		ch, cht := l.tr(x.Chan)
		v, vt := l.tr(x.Value)
		l.chanSend(ch, x.Chan, v, vt, x)
		// ghost effects the enclosing contract attaches to this send ("send.<field or variable name>")
		name := ""
		switch c := ast.Unparen(x.Chan).(type) {
		case *ast.SelectorExpr:
			name = "send." + c.Sel.Name
		case *ast.Ident:
			name = "send." + c.Name
		case *ast.CallExpr:
			// x.Input() <- v: named by the method that yields the channel
			if sel, ok := ast.Unparen(c.Fun).(*ast.SelectorExpr); ok {
				name = "send." + sel.Sel.Name
			}
		}
		if name != "" {
			tn := l.tmp(v.Sort)
			l.assign(tn, v.Sort, v)
			cn := l.tmp(ch.Sort)
			l.assign(cn, ch.Sort, ch)
			l.callSiteNamed(name, map[string]envEntry{"$value": {V(tn, v.Sort), vt}, "$channel": {V(cn, ch.Sort), cht}}, x)
			after := l.afterCall
			l.afterCall = nil
			for _, f := range after {
				f()
			}
		}
	default:
		l.unsupported(s, fmt.Sprintf("statement %T", s))
		l.emit(&Stmt{Kind: SHavocAll, Note: "unsupported statement"})
	}
}

func (l *Lowerer) defineVar(nm *ast.Ident, v *Term, vt types.Type) {
	if nm.Name == "_" {
		return
	}
	obj, _ := l.info().Defs[nm].(*types.Var)
	if obj == nil {
		obj, _ = l.info().Uses[nm].(*types.Var)
	}
	if obj == nil {
		return
	}
	if l.isBoxed(obj) {
		var pl *place
		if _, isDef := l.info().Defs[nm]; isDef {
			pl = l.declareBoxed(obj)
		} else {
			pl = l.boxedPlace(obj)
		}
		l.store(pl, v)
		return
	}
	pl := &place{kind: pLocal, name: l.localVar(obj), typ: obj.Type()}
	l.store(pl, l.convertTo(v, vt, obj.Type()))
}

func (l *Lowerer) assignStmt(x *ast.AssignStmt) {
	// op-assign
	if x.Tok != token.ASSIGN && x.Tok != token.DEFINE {
		pl := l.placeOf(x.Lhs[0])
		cur := l.load(pl)
		rhs, _ := l.tr(x.Rhs[0])
		op := map[token.Token]token.Token{
			token.ADD_ASSIGN: token.ADD, token.SUB_ASSIGN: token.SUB, token.MUL_ASSIGN: token.MUL,
			token.QUO_ASSIGN: token.QUO, token.REM_ASSIGN: token.REM, token.AND_ASSIGN: token.AND,
			token.OR_ASSIGN: token.OR, token.XOR_ASSIGN: token.XOR, token.SHL_ASSIGN: token.SHL,
			token.SHR_ASSIGN: token.SHR, token.AND_NOT_ASSIGN: token.AND_NOT,
		}[x.Tok]
		if cur.Sort == "Str" {
			l.p.reg.Fun("strcat", []string{"Str", "Str"}, "Str")
			r := App("strcat", "Str", cur, rhs)
			l.assume(Eq(App("strlen", "Int", r), Add(App("strlen", "Int", cur), App("strlen", "Int", rhs))))
			l.store(pl, r)
			return
		}
		if cur.Sort == "Real" {
			if rhs.Sort == "Int" {
				rhs = App("to_real", "Real", rhs)
			}
			sop := map[token.Token]string{token.ADD: "+", token.SUB: "-", token.MUL: "*", token.QUO: "/"}[op]
			l.store(pl, App(sop, "Real", cur, rhs))
			return
		}
		l.store(pl, l.intBinop(op, cur, rhs, pl.typ, x))
		return
	}
	// multi-value right-hand side
	if len(x.Lhs) > 1 && len(x.Rhs) == 1 {
		var vals []*Term
		var tys []types.Type
		switch r := ast.Unparen(x.Rhs[0]).(type) {
		case *ast.CallExpr:
			vals, tys = l.call(r)
		case *ast.IndexExpr: // v, ok := m[k]
			mt := l.typeOf(r.X).Underlying().(*types.Map)
			m, _ := l.tr(r.X)
			k, kt := l.tr(r.Index)
			k = l.convertTo(k, kt, mt.Key())
			dom, _, _ := l.mapVars(mt)
			pl := &place{kind: pMap, ref: m, idx: k, typ: mt.Elem(), mtyp: mt}
			vals = []*Term{l.load(pl), And(Not(Eq(m, IntLit(0))), Select(Select(dom, m), k))}
			tys = []types.Type{mt.Elem(), types.Typ[types.Bool]}
		case *ast.TypeAssertExpr:
			v, ok, typ := l.typeAssert(r)
			vals = []*Term{Ite(ok, v, l.p.zeroOf(typ)), ok}
			tys = []types.Type{typ, types.Typ[types.Bool]}
		case *ast.UnaryExpr: // v, ok := <-ch
			v, vt := l.recv(r.X, r)
			okv := l.freshVal(types.Typ[types.Bool])
			vals = []*Term{v, okv}
			tys = []types.Type{vt, types.Typ[types.Bool]}
		default:
			l.unsupported(x, "multi-assign")
			return
		}
		if len(vals) < len(x.Lhs) {
			l.unsupported(x, "multi-assign arity")
			return
		}
		for i, lhs := range x.Lhs {
			l.assignTo(lhs, vals[i], tys[i], x.Tok == token.DEFINE)
		}
		return
	}
	// parallel assignment: evaluate all right-hand sides first
	var vals []*Term
	var tys []types.Type
	for _, r := range x.Rhs {
		v, t := l.tr(r)
		vals = append(vals, v)
		tys = append(tys, t)
	}
	if len(vals) > 1 {
		for i := range vals {
			if vals[i].Op != "lit" {
				tn := l.tmp(vals[i].Sort)
				l.assign(tn, vals[i].Sort, vals[i])
				vals[i] = V(tn, vals[i].Sort)
			}
		}
	}
	for i, lhs := range x.Lhs {
		l.assignTo(lhs, vals[i], tys[i], x.Tok == token.DEFINE)
	}
}

func (l *Lowerer) assignTo(lhs ast.Expr, v *Term, vt types.Type, define bool) {
	if id, ok := ast.Unparen(lhs).(*ast.Ident); ok {
		if id.Name == "_" {
			return
		}
		if define {
			l.defineVar(id, v, vt)
			return
		}
	}
	pl := l.placeOf(lhs)
	if pl.kind == pBlank {
		return
	}
	l.store(pl, l.convertTo(v, vt, pl.typ))
}

// cond lowers a boolean condition into control flow.
func (l *Lowerer) cond(e ast.Expr, t, f *Block) {
	if l.cur == nil {
		return
	}
	switch x := ast.Unparen(e).(type) {
	case *ast.BinaryExpr:
		switch x.Op {
		case token.LAND:
			mid := l.f.newBlock("and")
			l.cond(x.X, mid, f)
			l.cur = mid
			l.cond(x.Y, t, f)
			return
		case token.LOR:
			mid := l.f.newBlock("or")
			l.cond(x.X, t, mid)
			l.cur = mid
			l.cond(x.Y, t, f)
			return
		}
	case *ast.UnaryExpr:
		if x.Op == token.NOT {
			l.cond(x.X, f, t)
			return
		}
	}
	c, _ := l.tr(e)
	if l.cur == nil {
		return
	}
	tb := l.f.newBlock("t")
	fb := l.f.newBlock("f")
	l.cur.Succs = append(l.cur.Succs, tb, fb)
	tb.Stmts = append(tb.Stmts, &Stmt{Kind: SAssume, E: c})
	fb.Stmts = append(fb.Stmts, &Stmt{Kind: SAssume, E: Not(c)})
	tb.Succs = append(tb.Succs, t)
	fb.Succs = append(fb.Succs, f)
	l.cur = nil
}

// ---------------------------------------------------------------------------
// loops

type loopCtx struct {
	ord    int
	spec   *LoopSpec
	hidden map[string]envEntry
	decVar string
}

func (l *Lowerer) loopSpec() (int, *LoopSpec) {
	// loop ordinals are counted per top-level function (pre-order), including inlined literal bodies
	top := l.fr
	for top.parent != nil {
		top = top.parent
	}
	ord := -1
	var ls *LoopSpec
	if l.fr == top || l.fr.fi.Lit != nil && l.sameTop(l.fr) {
		ord = top.loopOrd
		top.loopOrd++
		if top.contract != nil {
			ls = top.contract.Loops[ord]
			// "expr#k" addresses the k-th loop (in lowering order) over the same expression
			key := l.pendingRangeKey
			if key != "" {
				if top.rangeSeen == nil {
					top.rangeSeen = map[string]int{}
				}
				k := top.rangeSeen[key]
				top.rangeSeen[key] = k + 1
				if _, ok := top.contract.RangeNames[fmt.Sprintf("%s#%d", key, k)]; ok {
					key = fmt.Sprintf("%s#%d", key, k)
				} else if k > 0 {
					if _, plain := top.contract.RangeNames[key]; plain {
						// a plain name addresses the first loop over the expression only
						key = ""
					}
				}
			}
			if name, ok := top.contract.RangeNames[key]; ok && key != "" {
				ls = top.contract.NamedLoops[name]
				if ls == nil {
					ls = &LoopSpec{Name: name}
				}
			}
		}
	}
	l.pendingRangeKey = ""
	return ord, ls
}

// loopLabel: the name of a loop in obligation names: "loop.<name>" for loops addressed by name, else "loop<ordinal>".
func loopLabel(ord int, ls *LoopSpec) string {
	if ls != nil && ls.Name != "" {
		return "loop." + ls.Name
	}
	return fmt.Sprintf("loop%d", ord)
}

func (l *Lowerer) sameTop(fr *frame) bool {
	// a literal inlined in its own defining function
	top := fr
	for top.parent != nil {
		top = top.parent
	}
	fi := fr.fi
	for fi.Parent != nil {
		fi = fi.Parent
	}
	return fi == top.fi || fr.fi == top.fi
}

func (l *Lowerer) autoInv() *Clause {
	top := l.fr
	for top.parent != nil {
		top = top.parent
	}
	if top.contract != nil && top.contract.AutoInv != nil {
		return top.contract.AutoInv
	}
	return nil
}

func (l *Lowerer) invClauses(ls *LoopSpec, hidden map[string]envEntry, kind string, ord int, node ast.Node) {
	if c := l.autoInv(); c != nil {
		t := l.specTerm(c, hidden)
		l.assertOb(kind, loopLabel(ord, ls)+".state", c.Src, node, t, l.curProps)
	}
	if ls == nil {
		return
	}
	for _, c := range ls.Invs {
		savedPos := l.specPos
		if node != nil {
			l.specPos = loopBodyPos(node)
		}
		t := l.specTerm(c, hidden)
		l.specPos = savedPos
		lbl := loopLabel(ord, ls)
		if tg := clauseTag(c); tg != "" {
			lbl += "." + tg
		}
		l.assertOb(kind, lbl, c.Src, node, t, clausePropsOr(l.fr, c, l.curProps))
		l.tagLastOb(clauseTag(c), l.clauseUses(c)...)
	}
}

func loopBodyEnd(n ast.Node) token.Pos {
	switch x := n.(type) {
	case *ast.ForStmt:
		return x.Body.Rbrace
	case *ast.RangeStmt:
		return x.Body.Rbrace
	}
	return n.End()
}

func loopBodyPos(n ast.Node) token.Pos {
	switch x := n.(type) {
	case *ast.ForStmt:
		return x.Body.Lbrace + 1
	case *ast.RangeStmt:
		return x.Body.Lbrace + 1
	}
	return n.Pos()
}

func clausePropsOr(fr *frame, c *Clause, def []string) []string {
	if len(c.Props) > 0 {
		return c.Props
	}
	return def
}

func (l *Lowerer) invAssumeAt(ls *LoopSpec, hidden map[string]envEntry, node ast.Node) {
	savedPos := l.specPos
	if node != nil {
		l.specPos = loopBodyPos(node)
	}
	l.invAssume(ls, hidden)
	l.specPos = savedPos
}

func (l *Lowerer) invAssume(ls *LoopSpec, hidden map[string]envEntry) {
	if c := l.autoInv(); c != nil {
		l.assume(l.specTerm(c, hidden))
	}
	if ls == nil {
		return
	}
	for _, c := range ls.Invs {
		l.assumeTagged(l.specTerm(c, hidden), clauseTag(c))
	}
	for _, c := range ls.Assumes {
		l.assume(l.specTerm(c, hidden))
		l.note("assumed at a loop head without proof: " + c.Src)
	}
}

// clauseTag: the clause family of an invariant: its label, or the label of the monitor-invariant clause it restates.
func clauseTag(c *Clause) string {
	if c.Label != "" {
		return c.Label
	}
	if ce, ok := ast.Unparen(c.Expr).(*ast.CallExpr); ok && len(ce.Args) == 2 {
		if id, ok := ce.Fun.(*ast.Ident); ok && id.Name == "lockinv" {
			if lab, ok := ce.Args[1].(*ast.Ident); ok {
				return lab.Name
			}
		}
	}
	return ""
}

func (l *Lowerer) assumeTagged(t *Term, tag string) {
	if l.cur == nil {
		return
	}
	n := len(l.cur.Stmts)
	l.assume(t)
	if tag != "" && len(l.cur.Stmts) == n+1 {
		l.cur.Stmts[n].Tag = tag
	}
}

// specTerm translates a clause in the context of the top-level function being verified.
func (l *Lowerer) specTerm(c *Clause, extra map[string]envEntry) *Term {
	savedSpec, savedOld, savedGuard := l.spec, l.oldFn, l.guard
	l.spec = true
	l.guard = nil
	l.oldFn = entryOld
	if extra != nil {
		l.pushEnv(extra)
	}
	t, _ := l.tr(c.Expr)
	if extra != nil {
		l.popEnv()
	}
	l.spec, l.oldFn, l.guard = savedSpec, savedOld, savedGuard
	return t
}

func entryOld(name string) string {
	if strings.Contains(name, "@") {
		return name
	}
	return name + "@old"
}

func (l *Lowerer) beginLoop(label string, hiddenVars []string) (head, post, exit *Block, li *LoopInfo, ord int, ls *LoopSpec) {
	ord, ls = l.loopSpec()
	head = l.f.newBlock(fmt.Sprintf("loop%d.head", ord))
	post = l.f.newBlock(fmt.Sprintf("loop%d.post", ord))
	exit = l.f.newBlock(fmt.Sprintf("loop%d.exit", ord))
	li = &LoopInfo{Ordinal: ord, FirstBody: head.ID, Extra: hiddenVars, ExitID: exit.ID}
	head.Loop = li
	l.tg = &targets{brk: exit, cont: post, label: label, prev: l.tg}
	return
}

func (l *Lowerer) endLoop(head, post, exit *Block, li *LoopInfo, ord int, ls *LoopSpec, hidden map[string]envEntry, node ast.Node, decVar string) {
	// back edge: check invariant preservation, then stop
	l.cur = post
	// (post statements were emitted by caller into post before calling endLoop when needed)
}

func (l *Lowerer) forStmt(x *ast.ForStmt, label string) {
	if x.Init != nil {
		l.stmt(x.Init, "")
	}
	if l.p.opts.unroll > 0 {
		exit := l.f.newBlock("unroll.exit")
		for k := 0; k < l.p.opts.unroll && l.cur != nil; k++ {
			body := l.f.newBlock("unroll.body")
			post := l.f.newBlock("unroll.post")
			if x.Cond != nil {
				l.cond(x.Cond, body, exit)
			} else {
				l.jump(body)
			}
			l.tg = &targets{brk: exit, cont: post, label: label, prev: l.tg, loop: true}
			l.cur = body
			l.block(x.Body)
			l.jump(post)
			l.tg = l.tg.prev
			l.cur = post
			if x.Post != nil {
				l.stmt(x.Post, "")
			}
		}
		if l.cur != nil {
			// bound reached: only paths that leave the loop now are explored
			stop := l.f.newBlock("unroll.stop")
			if x.Cond != nil {
				l.cond(x.Cond, stop, exit)
			} else {
				l.jump(stop)
			}
			stop.Stmts = append(stop.Stmts, &Stmt{Kind: SAssume, E: tFalse})
		}
		l.cur = exit
		return
	}
	head, post, exit, li, ord, ls := l.beginLoop(label, nil)
	// counted loops: `for i := e; ...; i++` where the body never assigns i keeps i >= its initial value
	counter, counterInit := l.countedLoop(x)
	var cinv *Term
	if counter != "" {
		iv := l.tmp("Int")
		l.assign(iv, "Int", counterInit)
		cinv = Le(V(iv, "Int"), V(counter, "Int"))
		l.assertOb("inv-entry", loopLabel(ord, ls)+".counter", "counter stays >= its initial value", x, cinv, nil)
	}
	l.invClauses(ls, nil, "inv-entry", ord, x)
	l.jump(head)
	l.cur = head
	li.HavocAt = 0
	if cinv != nil {
		l.assume(cinv)
	}
	l.invAssumeAt(ls, nil, x)
	decVar := l.decreasesStart(ls, nil)
	body := l.f.newBlock("body")
	if x.Cond != nil {
		l.cond(x.Cond, body, exit)
	} else {
		l.jump(body)
	}
	l.cur = body
	l.iterStart(ls)
	l.block(x.Body)
	l.jump(post)
	l.cur = post
	l.iterEnd(ls, nil, ord, x)
	if x.Post != nil {
		l.stmt(x.Post, "")
	}
	if cinv != nil {
		l.assertOb("inv-preserve", loopLabel(ord, ls)+".counter", "counter stays >= its initial value", x, cinv, nil)
	}
	l.invClauses(ls, nil, "inv-preserve", ord, x)
	l.decreasesCheck(ls, nil, decVar, ord, x)
	li.LastBody = len(l.f.Blocks) - 1
	l.cur = nil
	l.tg = l.tg.prev
	l.cur = exit
}

// countedLoop recognises `for i := init; cond; i++ / i += c` with no other assignment to i in the body.
func (l *Lowerer) countedLoop(x *ast.ForStmt) (string, *Term) {
	as, ok := x.Init.(*ast.AssignStmt)
	if !ok || len(as.Lhs) != 1 || len(as.Rhs) != 1 {
		return "", nil
	}
	id, ok := as.Lhs[0].(*ast.Ident)
	if !ok {
		return "", nil
	}
	obj, _ := l.info().ObjectOf(id).(*types.Var)
	if obj == nil || l.p.sortOf(obj.Type()) != "Int" {
		return "", nil
	}
	switch p := x.Post.(type) {
	case *ast.IncDecStmt:
		pid, ok := p.X.(*ast.Ident)
		if !ok || l.info().ObjectOf(pid) != obj || p.Tok != token.INC {
			return "", nil
		}
	default:
		return "", nil
	}
	assigned := false
	ast.Inspect(x.Body, func(n ast.Node) bool {
		switch s := n.(type) {
		case *ast.AssignStmt:
			for _, e := range s.Lhs {
				if eid, ok := ast.Unparen(e).(*ast.Ident); ok && l.info().ObjectOf(eid) == obj {
					assigned = true
				}
			}
		case *ast.IncDecStmt:
			if eid, ok := ast.Unparen(s.X).(*ast.Ident); ok && l.info().ObjectOf(eid) == obj {
				assigned = true
			}
		case *ast.UnaryExpr:
			if s.Op == token.AND {
				if eid, ok := ast.Unparen(s.X).(*ast.Ident); ok && l.info().ObjectOf(eid) == obj {
					assigned = true
				}
			}
		case *ast.RangeStmt:
			for _, e := range []ast.Expr{s.Key, s.Value} {
				if e == nil {
					continue
				}
				if eid, ok := ast.Unparen(e).(*ast.Ident); ok && l.info().ObjectOf(eid) == obj {
					assigned = true
				}
			}
		}
		return true
	})
	if assigned {
		return "", nil
	}
	name := l.localVar(obj)
	return name, V(name, "Int")
}

// iterStart records the point where it(...) snapshots are taken (start of an iteration body).
func (l *Lowerer) iterStart(ls *LoopSpec) {
	if ls == nil || len(ls.IterEnsures) == 0 || l.cur == nil {
		return
	}
	l.itPoints = append(l.itPoints, acqPoint{l.cur, len(l.cur.Stmts)})
}

// iterEnd checks the per-iteration postconditions at the end of an iteration.
func (l *Lowerer) iterEnd(ls *LoopSpec, hidden map[string]envEntry, ord int, node ast.Node) {
	if ls == nil || l.cur == nil {
		return
	}
	for _, c := range ls.IterEnsures {
		savedPos := l.specPos
		// names are resolved at the end of the loop body: the variables declared at the top level of the body
		// are in scope there (they hold their zero value on paths that skipped their declaration)
		l.specPos = loopBodyEnd(node)
		t := l.specTerm(c, hidden)
		l.specPos = savedPos
		lbl := loopLabel(ord, ls)
		if c.Label != "" {
			lbl += "." + c.Label
		}
		l.assertOb("iter-ensures", lbl, c.Src, node, t, clausePropsOr(l.fr, c, l.curProps))
	}
}

func (l *Lowerer) decreasesStart(ls *LoopSpec, hidden map[string]envEntry) string {
	if ls == nil || ls.Decreases == nil {
		return ""
	}
	d := l.specTerm(ls.Decreases, hidden)
	n := l.tmp("Int")
	l.assign(n, "Int", d)
	return n
}

func (l *Lowerer) decreasesCheck(ls *LoopSpec, hidden map[string]envEntry, decVar string, ord int, node ast.Node) {
	if decVar == "" {
		return
	}
	d := l.specTerm(ls.Decreases, hidden)
	l.assertOb("decreases", loopLabel(ord, ls), ls.Decreases.Src, node,
		And(Lt(d, V(decVar, "Int")), Le(IntLit(0), V(decVar, "Int"))), clausePropsOr(l.fr, ls.Decreases, l.curProps))
}

func (l *Lowerer) rangeStmt(x *ast.RangeStmt, label string) {
	l.rangeStack = append(l.rangeStack, x)
	defer func() { l.rangeStack = l.rangeStack[:len(l.rangeStack)-1] }()
	xt := l.typeOf(x.X)
	coll, _ := l.tr(x.X)
	l.tmpN++
	id := l.tmpN
	define := x.Tok == token.DEFINE
	// a loopname directive addresses this loop by the source text of the ranged expression
	rangeKey := strings.ReplaceAll(l.exprText(x.X), " ", "")
	l.pendingRangeKey = rangeKey
	setKV := func(e ast.Expr, v *Term, vt types.Type) {
		if e == nil {
			return
		}
		l.assignTo(e, v, vt, define)
	}
	switch u := xt.Underlying().(type) {
	case *types.Slice, *types.Array, *types.Pointer:
		var n *Term
		var elemT types.Type
		sVar := fmt.Sprintf("$rs%d", id)
		l.assign(sVar, coll.Sort, coll)
		sv := V(sVar, coll.Sort)
		isSlice := false
		switch uu := u.(type) {
		case *types.Slice:
			n = l.p.reg.sLen(sv)
			elemT = uu.Elem()
			isSlice = true
		case *types.Array:
			n = IntLit(uu.Len())
			elemT = uu.Elem()
		default:
			l.unsupported(x, "range over pointer")
			l.emit(&Stmt{Kind: SHavocAll})
			return
		}
		iVar := fmt.Sprintf("$ri%d", id)
		l.assign(iVar, "Int", IntLit(0))
		iv := V(iVar, "Int")
		if l.p.opts.unroll > 0 {
			exit := l.f.newBlock("unroll.exit")
			for k := 0; k <= l.p.opts.unroll && l.cur != nil; k++ {
				body := l.f.newBlock("unroll.body")
				post := l.f.newBlock("unroll.post")
				tb := l.f.newBlock("t")
				fb := l.f.newBlock("f")
				l.cur.Succs = append(l.cur.Succs, tb, fb)
				tb.Stmts = append(tb.Stmts, &Stmt{Kind: SAssume, E: Lt(iv, n)})
				fb.Stmts = append(fb.Stmts, &Stmt{Kind: SAssume, E: Not(Lt(iv, n))})
				fb.Succs = append(fb.Succs, exit)
				if k == l.p.opts.unroll {
					tb.Stmts = append(tb.Stmts, &Stmt{Kind: SAssume, E: tFalse})
					l.cur = nil
					break
				}
				tb.Succs = append(tb.Succs, body)
				l.tg = &targets{brk: exit, cont: post, label: label, prev: l.tg, loop: true}
				l.cur = body
				setKV(x.Key, iv, types.Typ[types.Int])
				if x.Value != nil {
					var ev *Term
					if isSlice {
						ev = l.p.reg.sIndex(sv, iv)
					} else {
						ev = Select(sv, iv)
					}
					l.wf(ev, elemT)
					setKV(x.Value, ev, elemT)
				}
				l.block(x.Body)
				l.jump(post)
				l.tg = l.tg.prev
				l.cur = post
				l.assign(iVar, "Int", Add(iv, IntLit(1)))
			}
			l.cur = exit
			return
		}
		hidden := map[string]envEntry{"$i": {iv, types.Typ[types.Int]}, "$n": {n, types.Typ[types.Int]}, "$s": {sv, xt}}
		head, post, exit, li, ord, ls := l.beginLoop(label, nil)
		// $i<ordinal>: the index of this loop, also visible in the specifications of nested loops
		outerIdx := map[string]envEntry{fmt.Sprintf("$i%d", ord): {iv, types.Typ[types.Int]}}
		if ls != nil && ls.Name != "" {
			outerIdx["$i_"+ls.Name] = envEntry{iv, types.Typ[types.Int]}
		}
		l.pushEnv(outerIdx)
		defer l.popEnv()
		l.invClauses(ls, hidden, "inv-entry", ord, x)
		l.jump(head)
		l.cur = head
		li.HavocAt = 0
		l.assume(And(Le(IntLit(0), iv), Le(iv, n)))
		l.invAssumeAt(ls, hidden, x)
		body := l.f.newBlock("body")
		tb := l.f.newBlock("t")
		fb := l.f.newBlock("f")
		l.cur.Succs = append(l.cur.Succs, tb, fb)
		tb.Stmts = append(tb.Stmts, &Stmt{Kind: SAssume, E: Lt(iv, n)})
		fb.Stmts = append(fb.Stmts, &Stmt{Kind: SAssume, E: Not(Lt(iv, n))})
		tb.Succs = append(tb.Succs, body)
		fb.Succs = append(fb.Succs, exit)
		l.cur = body
		setKV(x.Key, iv, types.Typ[types.Int])
		if x.Value != nil {
			var ev *Term
			if isSlice {
				ev = l.p.reg.sIndex(sv, iv)
				l.linkIdx(sv, iv, elemT)
			} else {
				ev = Select(sv, iv)
			}
			l.wf(ev, elemT)
			setKV(x.Value, ev, elemT)
		}
		l.iterStart(ls)
		l.block(x.Body)
		l.jump(post)
		l.cur = post
		l.iterEnd(ls, hidden, ord, x)
		l.assign(iVar, "Int", Add(iv, IntLit(1)))
		l.invClauses(ls, hidden, "inv-preserve", ord, x)
		li.LastBody = len(l.f.Blocks) - 1
		l.cur = nil
		l.tg = l.tg.prev
		l.cur = exit
	case *types.Map:
		mVar := fmt.Sprintf("$rm%d", id)
		l.assign(mVar, "Int", coll)
		mv := V(mVar, "Int")
		ks := l.p.sortOf(u.Key())
		visSort := arraySort(ks, "Bool")
		visVar := fmt.Sprintf("$rv%d", id)
		l.assign(visVar, visSort, App("(as const "+visSort+")", visSort, tFalse))
		vis := V(visVar, visSort)
		hidden := map[string]envEntry{"$visited": {vis, types.NewArray(types.Typ[types.Bool], 1<<62)}, "$m": {mv, xt}}
		head, post, exit, li, ord, ls := l.beginLoop(label, nil)
		// $visited<ordinal> / $visited_<name>: the visited set of this loop, also visible in nested loops
		outerVis := map[string]envEntry{fmt.Sprintf("$visited%d", ord): hidden["$visited"]}
		if ls != nil && ls.Name != "" {
			outerVis["$visited_"+ls.Name] = hidden["$visited"]
		}
		l.pushEnv(outerVis)
		defer l.popEnv()
		l.invClauses(ls, hidden, "inv-entry", ord, x)
		l.jump(head)
		l.cur = head
		li.HavocAt = 0
		l.invAssumeAt(ls, hidden, x)
		dom, val, _ := l.mapVars(u)
		body := l.f.newBlock("body")
		done := l.f.newBlock("done")
		l.cur.Succs = append(l.cur.Succs, body, done)
		// exit: every key of the current map has been visited
		l.quantN++
		bv := &Term{Op: "bound", Name: fmt.Sprintf("mk!%d", l.quantN), Sort: ks}
		done.Stmts = append(done.Stmts, &Stmt{Kind: SAssume, E: &Term{Op: "forall", Sort: "Bool", Args: []*Term{bv,
			Implies(Select(Select(dom, mv), bv), Select(vis, bv))}}})
		done.Stmts = append(done.Stmts, &Stmt{Kind: SAssume, E: Or(Not(Eq(mv, IntLit(0))), tTrue)})
		done.Succs = append(done.Succs, exit)
		l.cur = body
		kVar := l.tmp(ks)
		l.havoc(kVar, ks)
		kv := V(kVar, ks)
		l.assume(And(Not(Eq(mv, IntLit(0))), Select(Select(dom, mv), kv), Not(Select(vis, kv))))
		l.wf(kv, u.Key())
		l.assign(visVar, visSort, Store(vis, kv, tTrue))
		if ls != nil && ls.Name != "" {
			// $key_<name>: the key of the current iteration, visible in the body and in nested loops
			outerVis["$key_"+ls.Name] = envEntry{kv, u.Key()}
		}
		setKV(x.Key, kv, u.Key())
		if x.Value != nil {
			ev := Select(Select(val, mv), kv)
			l.wf(ev, u.Elem())
			setKV(x.Value, ev, u.Elem())
		}
		hidden["$k"] = envEntry{kv, u.Key()}
		l.iterStart(ls)
		l.block(x.Body)
		l.jump(post)
		l.cur = post
		l.iterEnd(ls, hidden, ord, x)
		l.invClauses(ls, hidden, "inv-preserve", ord, x)
		li.LastBody = len(l.f.Blocks) - 1
		l.cur = nil
		l.tg = l.tg.prev
		l.cur = exit
	case *types.Chan:
		head, post, exit, li, ord, ls := l.beginLoop(label, nil)
		l.invClauses(ls, nil, "inv-entry", ord, x)
		l.jump(head)
		l.cur = head
		li.HavocAt = 0
		l.invAssumeAt(ls, nil, x)
		body := l.f.newBlock("body")
		l.cur.Succs = append(l.cur.Succs, body, exit)
		l.cur = body
		v, vt := l.recvFrom(coll, x.X, u.Elem(), x)
		setKV(x.Key, v, vt)
		l.iterStart(ls)
		l.block(x.Body)
		l.jump(post)
		l.cur = post
		l.iterEnd(ls, nil, ord, x)
		l.invClauses(ls, nil, "inv-preserve", ord, x)
		li.LastBody = len(l.f.Blocks) - 1
		l.cur = nil
		l.tg = l.tg.prev
		l.cur = exit
	case *types.Basic:
		// range over string or integer: abstract iteration
		head, post, exit, li, ord, ls := l.beginLoop(label, nil)
		l.invClauses(ls, nil, "inv-entry", ord, x)
		l.jump(head)
		l.cur = head
		li.HavocAt = 0
		l.invAssumeAt(ls, nil, x)
		body := l.f.newBlock("body")
		l.cur.Succs = append(l.cur.Succs, body, exit)
		l.cur = body
		if x.Key != nil {
			k := l.freshVal(types.Typ[types.Int])
			l.assume(Le(IntLit(0), k))
			setKV(x.Key, k, types.Typ[types.Int])
		}
		if x.Value != nil {
			setKV(x.Value, l.freshVal(types.Typ[types.Rune]), types.Typ[types.Rune])
		}
		l.block(x.Body)
		l.jump(post)
		l.cur = post
		l.invClauses(ls, nil, "inv-preserve", ord, x)
		li.LastBody = len(l.f.Blocks) - 1
		l.cur = nil
		l.tg = l.tg.prev
		l.cur = exit
	default:
		l.unsupported(x, "range over "+xt.String())
		l.emit(&Stmt{Kind: SHavocAll})
	}
}

// ---------------------------------------------------------------------------
// switch / select

func (l *Lowerer) switchStmt(x *ast.SwitchStmt, label string) {
	if x.Init != nil {
		l.stmt(x.Init, "")
	}
	exit := l.f.newBlock("sw.exit")
	l.tg = &targets{brk: exit, cont: nil, label: label, prev: l.tg}
	if l.tg.prev != nil {
		l.tg.cont = l.tg.prev.cont
	}
	var tag *Term
	var tagT types.Type
	if x.Tag != nil {
		tag, tagT = l.tr(x.Tag)
		tn := l.tmp(tag.Sort)
		l.assign(tn, tag.Sort, tag)
		tag = V(tn, tag.Sort)
	}
	var defaultClause *ast.CaseClause
	var bodies []*Block
	var clauses []*ast.CaseClause
	for _, c := range x.Body.List {
		cc := c.(*ast.CaseClause)
		clauses = append(clauses, cc)
		bodies = append(bodies, l.f.newBlock("case"))
		if cc.List == nil {
			defaultClause = cc
		}
	}
	for i, cc := range clauses {
		if cc.List == nil {
			continue
		}
		next := l.f.newBlock("sw.next")
		for _, e := range cc.List {
			if l.cur == nil {
				break
			}
			if tag == nil {
				mid := l.f.newBlock("sw.or")
				l.cond(e, bodies[i], mid)
				l.cur = mid
			} else {
				v, vt := l.tr(e)
				a, b := tag, v
				if _, ti := tagT.Underlying().(*types.Interface); ti {
					if _, vi := vt.Underlying().(*types.Interface); !vi && !isUntypedNil(vt) {
						b = l.box(b, vt)
					}
				}
				var c *Term
				if strings.HasPrefix(a.Sort, "Slice_") {
					c = l.p.reg.sNil(a)
				} else {
					c = Eq(a, b)
				}
				tb := l.f.newBlock("t")
				fb := l.f.newBlock("f")
				l.cur.Succs = append(l.cur.Succs, tb, fb)
				tb.Stmts = append(tb.Stmts, &Stmt{Kind: SAssume, E: c})
				fb.Stmts = append(fb.Stmts, &Stmt{Kind: SAssume, E: Not(c)})
				tb.Succs = append(tb.Succs, bodies[i])
				l.cur = fb
			}
		}
		l.jump(next)
		l.cur = next
	}
	// no case matched
	if defaultClause != nil {
		for i, cc := range clauses {
			if cc == defaultClause {
				l.jump(bodies[i])
			}
		}
	} else {
		l.jump(exit)
	}
	for i, cc := range clauses {
		l.cur = bodies[i]
		l.stmts(cc.Body)
		if l.cur != nil && len(cc.Body) > 0 {
			if bs, ok := cc.Body[len(cc.Body)-1].(*ast.BranchStmt); ok && bs.Tok == token.FALLTHROUGH && i+1 < len(bodies) {
				l.jump(bodies[i+1])
				continue
			}
		}
		l.jump(exit)
	}
	l.tg = l.tg.prev
	l.cur = exit
}

func (l *Lowerer) typeSwitchStmt(x *ast.TypeSwitchStmt, label string) {
	if x.Init != nil {
		l.stmt(x.Init, "")
	}
	var subject ast.Expr
	var bindName *ast.Ident
	switch a := x.Assign.(type) {
	case *ast.ExprStmt:
		subject = ast.Unparen(a.X).(*ast.TypeAssertExpr).X
	case *ast.AssignStmt:
		subject = ast.Unparen(a.Rhs[0]).(*ast.TypeAssertExpr).X
		bindName = a.Lhs[0].(*ast.Ident)
	}
	v, vt := l.tr(subject)
	tn := l.tmp(v.Sort)
	l.assign(tn, v.Sort, v)
	v = V(tn, v.Sort)
	exit := l.f.newBlock("tsw.exit")
	l.tg = &targets{brk: exit, label: label, prev: l.tg}
	if l.tg.prev != nil {
		l.tg.cont = l.tg.prev.cont
	}
	var defaultClause *ast.CaseClause
	var negs []*Term
	start := l.cur
	for _, c := range x.Body.List {
		cc := c.(*ast.CaseClause)
		if cc.List == nil {
			defaultClause = cc
			continue
		}
		body := l.f.newBlock("tcase")
		start.Succs = append(start.Succs, body)
		l.cur = body
		var alts []*Term
		exact := true
		var bindT types.Type
		for _, te := range cc.List {
			tt := l.typeOf(te)
			if tt == nil || isUntypedNil(tt) {
				alts = append(alts, Eq(v, IntLit(0)))
				continue
			}
			bindT = tt
			if _, isIface := tt.Underlying().(*types.Interface); isIface {
				exact = false
				alts = append(alts, Not(Eq(v, IntLit(0))))
			} else {
				alts = append(alts, And(Not(Eq(v, IntLit(0))), Eq(App("dyntype", "Int", v), l.p.typeID(tt))))
			}
		}
		l.assume(And(negs...))
		l.assume(Or(alts...))
		if exact {
			negs = append(negs, Not(Or(alts...)))
		}
		if bindName != nil {
			if obj, ok := l.info().Implicits[cc].(*types.Var); ok {
				pl := &place{kind: pLocal, name: l.localVar(obj), typ: obj.Type()}
				if len(cc.List) == 1 && bindT != nil {
					if _, isIface := bindT.Underlying().(*types.Interface); isIface {
						l.store(pl, v)
					} else {
						l.store(pl, l.unbox(v, bindT))
					}
				} else {
					l.store(pl, l.convertTo(v, vt, obj.Type()))
				}
			}
		}
		l.stmts(cc.Body)
		l.jump(exit)
	}
	other := l.f.newBlock("tdefault")
	start.Succs = append(start.Succs, other)
	l.cur = other
	l.assume(And(negs...))
	if defaultClause != nil {
		if bindName != nil {
			if obj, ok := l.info().Implicits[defaultClause].(*types.Var); ok {
				pl := &place{kind: pLocal, name: l.localVar(obj), typ: obj.Type()}
				l.store(pl, v)
			}
		}
		l.stmts(defaultClause.Body)
	}
	l.jump(exit)
	l.tg = l.tg.prev
	l.cur = exit
}

func (l *Lowerer) selectStmt(x *ast.SelectStmt, label string) {
	l.havocChanLen()
	exit := l.f.newBlock("sel.exit")
	l.tg = &targets{brk: exit, label: label, prev: l.tg}
	if l.tg.prev != nil {
		l.tg.cont = l.tg.prev.cont
	}
	start := l.cur
	for _, c := range x.Body.List {
		cc := c.(*ast.CommClause)
		body := l.f.newBlock("comm")
		start.Succs = append(start.Succs, body)
		l.cur = body
		if cc.Comm != nil {
			l.stmt(cc.Comm, "")
		}
		l.stmts(cc.Body)
		l.jump(exit)
	}
	if len(x.Body.List) == 0 {
		l.cur = start
		l.assume(tFalse) // select{} blocks forever
		l.jump(exit)
	}
	l.tg = l.tg.prev
	l.cur = exit
}

// ---------------------------------------------------------------------------
// branches, labels, return, defer

func (l *Lowerer) branchStmt(x *ast.BranchStmt) {
	switch x.Tok {
	case token.BREAK:
		for t := l.tg; t != nil; t = t.prev {
			if x.Label == nil || t.label == x.Label.Name {
				if t.brk != nil {
					l.jump(t.brk)
					return
				}
			}
		}
	case token.CONTINUE:
		for t := l.tg; t != nil; t = t.prev {
			if (x.Label == nil && t.cont != nil && t.isLoop()) || (x.Label != nil && t.label == x.Label.Name) {
				l.jump(t.cont)
				return
			}
		}
	case token.GOTO:
		if gl, ok := l.gotoLoops[x.Label.Name]; ok {
			// backward goto into a label that was lowered as a cut loop head: check its invariant, then stop
			l.invClausesNamed(gl.spec, "inv-preserve", x.Label.Name, x)
			gl.li.LastBody = len(l.f.Blocks) - 1
			l.cur = nil
			return
		}
		b := l.labelBlock(x.Label.Name)
		if l.labelSeen[x.Label.Name] {
			l.unsupported(x, "backward goto "+x.Label.Name)
			l.assume(tFalse)
			l.cur = nil
			return
		}
		l.jump(b)
		return
	case token.FALLTHROUGH:
		return
	}
	l.unsupported(x, "branch "+x.Tok.String())
	l.cur = nil
}

func (t *targets) isLoop() bool {
	return t.loop || (t.cont != nil && t.brk != nil && strings.HasPrefix(t.brk.Name, "loop"))
}

func (l *Lowerer) labelBlock(name string) *Block {
	if b, ok := l.labels[name]; ok {
		return b
	}
	b := l.f.newBlock("label." + name)
	l.labels[name] = b
	return b
}

type gotoLoop struct {
	li   *LoopInfo
	spec *LoopSpec
}

// invClausesNamed: invariants of a label loop (`loop <label>: invariant ...`).
func (l *Lowerer) invClausesNamed(ls *LoopSpec, kind, label string, node ast.Node) {
	if c := l.autoInv(); c != nil {
		l.assertOb(kind, "loop."+label+".state", c.Src, node, l.specTerm(c, nil), l.curProps)
	}
	if ls == nil {
		return
	}
	for _, c := range ls.Invs {
		savedPos := l.specPos
		l.specPos = node.Pos()
		t := l.specTerm(c, nil)
		l.specPos = savedPos
		lbl := "loop." + label
		if tg := clauseTag(c); tg != "" {
			lbl += "." + tg
		}
		l.assertOb(kind, lbl, c.Src, node, t, clausePropsOr(l.fr, c, l.curProps))
		l.tagLastOb(clauseTag(c), l.clauseUses(c)...)
	}
}

// backwardGotoLabels: labels that are the target of a goto appearing after them in the source.
func backwardGotoLabels(body ast.Node) map[string]bool {
	labelPos := map[string]token.Pos{}
	ast.Inspect(body, func(n ast.Node) bool {
		if ls, ok := n.(*ast.LabeledStmt); ok {
			labelPos[ls.Label.Name] = ls.Pos()
		}
		return true
	})
	out := map[string]bool{}
	ast.Inspect(body, func(n ast.Node) bool {
		if bs, ok := n.(*ast.BranchStmt); ok && bs.Tok == token.GOTO && bs.Label != nil {
			if p, ok := labelPos[bs.Label.Name]; ok && p < bs.Pos() {
				out[bs.Label.Name] = true
			}
		}
		return true
	})
	return out
}

func (l *Lowerer) labeled(x *ast.LabeledStmt) {
	if l.backLabels == nil {
		top := l.fr
		for top.parent != nil {
			top = top.parent
		}
		l.backLabels = map[string]bool{}
		for fr := l.fr; fr != nil; fr = fr.parent {
			if fr.fi.Body != nil {
				for k := range backwardGotoLabels(fr.fi.Body) {
					l.backLabels[k] = true
				}
			}
		}
	}
	if l.backLabels[x.Label.Name] && l.cur != nil {
		// a label re-entered by a later goto: cut loop with invariants `loop <label>: invariant ...`
		top := l.fr
		for top.parent != nil {
			top = top.parent
		}
		var ls *LoopSpec
		if top.contract != nil {
			ls = top.contract.NamedLoops[x.Label.Name]
		}
		head := l.f.newBlock("gotoloop." + x.Label.Name)
		li := &LoopInfo{Ordinal: -1, FirstBody: head.ID, ExitID: -1}
		head.Loop = li
		l.invClausesNamed(ls, "inv-entry", x.Label.Name, x)
		l.jump(head)
		l.cur = head
		li.HavocAt = 0
		if c := l.autoInv(); c != nil {
			l.assume(l.specTerm(c, nil))
		}
		if ls != nil {
			for _, c := range ls.Invs {
				savedPos := l.specPos
				l.specPos = x.Pos()
				l.assume(l.specTerm(c, nil))
				l.specPos = savedPos
			}
		}
		if l.gotoLoops == nil {
			l.gotoLoops = map[string]*gotoLoop{}
		}
		l.gotoLoops[x.Label.Name] = &gotoLoop{li: li, spec: ls}
		li.LastBody = len(l.f.Blocks) - 1
		l.labelSeen[x.Label.Name] = true
		switch s := x.Stmt.(type) {
		case *ast.ForStmt:
			l.forStmt(s, x.Label.Name)
		case *ast.RangeStmt:
			l.rangeStmt(s, x.Label.Name)
		case *ast.SwitchStmt:
			l.switchStmt(s, x.Label.Name)
		case *ast.SelectStmt:
			l.selectStmt(s, x.Label.Name)
		case *ast.TypeSwitchStmt:
			l.typeSwitchStmt(s, x.Label.Name)
		default:
			l.stmt(x.Stmt, x.Label.Name)
		}
		if li.LastBody < len(l.f.Blocks)-1 {
			// the statement's own blocks belong to the loop; gotos seen later extend the range further
			if li.LastBody < head.ID {
				li.LastBody = head.ID
			}
		}
		return
	}
	switch x.Stmt.(type) {
	case *ast.ForStmt, *ast.RangeStmt, *ast.SwitchStmt, *ast.SelectStmt, *ast.TypeSwitchStmt:
		// a label on a loop may still be a goto target
		if _, isTarget := l.labels[x.Label.Name]; isTarget {
			b := l.labelBlock(x.Label.Name)
			l.jump(b)
			l.cur = b
		}
		l.labelSeen[x.Label.Name] = true
		if l.cur == nil {
			return
		}
		switch s := x.Stmt.(type) {
		case *ast.ForStmt:
			l.forStmt(s, x.Label.Name)
		case *ast.RangeStmt:
			l.rangeStmt(s, x.Label.Name)
		case *ast.SwitchStmt:
			l.switchStmt(s, x.Label.Name)
		case *ast.SelectStmt:
			l.selectStmt(s, x.Label.Name)
		case *ast.TypeSwitchStmt:
			l.typeSwitchStmt(s, x.Label.Name)
		}
		return
	}
	b := l.labelBlock(x.Label.Name)
	l.labelSeen[x.Label.Name] = true
	l.jump(b)
	l.cur = b
	l.stmt(x.Stmt, x.Label.Name)
}

func (l *Lowerer) returnStmt(x *ast.ReturnStmt) {
	fr := l.fr
	if len(x.Results) == 1 && len(fr.results) > 1 {
		ts, tys := l.call(ast.Unparen(x.Results[0]).(*ast.CallExpr))
		for i, n := range fr.results {
			l.assign(n, l.f.Vars[n], l.convertTo(ts[i], tys[i], fr.resTypes[i]))
		}
	} else if len(x.Results) > 0 {
		var vals []*Term
		for i, e := range x.Results {
			v, vt := l.tr(e)
			vals = append(vals, l.convertTo(v, vt, fr.resTypes[i]))
		}
		for i, n := range fr.results {
			if vals[i].Sort != l.f.Vars[n] {
				l.unsupported(x, "return sort mismatch")
				l.havoc(n, l.f.Vars[n])
				continue
			}
			l.assign(n, l.f.Vars[n], vals[i])
		}
	}
	if fr.parent == nil && fr.contract != nil && fr.contract.PerReturn && len(fr.deferGuard) == 0 {
		l.emitEnsures()
	}
	if fr.parent == nil && l.cur != nil && !l.spec && l.p.opts.unroll == 0 {
		// vacuity guard: this return must be reachable under the assumptions made on the way
		ord := l.obOrd["canary/return"]
		l.obOrd["canary/return"] = ord + 1
		ob := &Oblig{Name: fmt.Sprintf("%s/canary/return#%d", l.fnKey, ord), Kind: "canary", Func: l.fnKey, Canary: true, Props: l.curProps,
			Pos: l.pos(x), Descr: "vacuity guard: this return statement is reachable (the assumptions on the path are consistent)"}
		l.f.Obligs = append(l.f.Obligs, ob)
		l.emit(&Stmt{Kind: SAssert, E: tFalse, Ob: ob})
	}
	l.jump(fr.retBlock)
}

func (l *Lowerer) deferStmt(x *ast.DeferStmt) {
	g := l.fr.deferGuard[x]
	if g == "" {
		l.tmpN++
		g = fmt.Sprintf("$defer%d", l.tmpN)
		l.unsupported(x, "defer without pre-declared guard")
	}
	d := &deferred{guard: g, call: x.Call}
	// evaluate receiver/arguments now for non-literal calls
	if _, isLit := ast.Unparen(x.Call.Fun).(*ast.FuncLit); !isLit {
		for _, a := range x.Call.Args {
			t, _ := l.tr(a)
			tn := l.tmp(t.Sort)
			l.assign(tn, t.Sort, t)
			d.args = append(d.args, V(tn, t.Sort))
		}
	}
	l.assign(g, "Bool", tTrue)
	l.fr.defers = append(l.fr.defers, d)
}

// runDefers replays deferred calls (LIFO) at the return block of a frame.
func (l *Lowerer) runDefers(fr *frame) {
	for i := len(fr.defers) - 1; i >= 0; i-- {
		d := fr.defers[i]
		if l.cur == nil {
			return
		}
		run := l.f.newBlock("defer.run")
		skip := l.f.newBlock("defer.skip")
		join := l.f.newBlock("defer.join")
		l.cur.Succs = append(l.cur.Succs, run, skip)
		run.Stmts = append(run.Stmts, &Stmt{Kind: SAssume, E: V(d.guard, "Bool")})
		skip.Stmts = append(skip.Stmts, &Stmt{Kind: SAssume, E: Not(V(d.guard, "Bool"))})
		skip.Succs = append(skip.Succs, join)
		l.cur = run
		saved := l.fr
		l.fr = fr
		// arguments were evaluated at defer time; re-evaluation here is an approximation only for
		// calls whose arguments are not simple (noted)
		if len(d.args) > 0 {
			l.note("A-defer: arguments of deferred calls are re-evaluated at return")
		}
		l.call(d.call)
		l.fr = saved
		l.jump(join)
		l.cur = join
	}
}

// ---------------------------------------------------------------------------
// composite literals

func (l *Lowerer) trComposite(x *ast.CompositeLit, ptrTyp types.Type) (*Term, types.Type) {
	typ := l.typeOf(x)
	if typ == nil {
		panic(l.pos(x) + ": composite literal without type")
	}
	switch u := typ.Underlying().(type) {
	case *types.Struct:
		if l.p.isOpaqueStruct(typ) {
			for _, e := range x.Elts {
				l.tr(e)
			}
			if ptrTyp != nil {
				return l.freshVal(ptrTyp), ptrTyp
			}
			return l.freshVal(typ), typ
		}
		vals := make([]*Term, u.NumFields())
		for i := 0; i < u.NumFields(); i++ {
			vals[i] = l.p.zeroOf(u.Field(i).Type())
		}
		for i, e := range x.Elts {
			idx := i
			val := e
			if kv, ok := e.(*ast.KeyValueExpr); ok {
				name := kv.Key.(*ast.Ident).Name
				for k := 0; k < u.NumFields(); k++ {
					if u.Field(k).Name() == name {
						idx = k
					}
				}
				val = kv.Value
			}
			var v *Term
			var vt types.Type
			if cl, ok := ast.Unparen(val).(*ast.CompositeLit); ok {
				v, vt = l.trComposite(cl, nil)
			} else {
				v, vt = l.tr(val)
			}
			vals[idx] = l.convertTo(v, vt, u.Field(idx).Type())
		}
		if ptrTyp != nil {
			r := l.alloc()
			owner := l.p.structName(typ)
			l.emit(&Stmt{Kind: SAllocZero, Struct: owner, Ref: r})
			l.initializing[r.String()] = true
			for i := 0; i < u.NumFields(); i++ {
				l.store(&place{kind: pHeap, ref: r, owner: owner, path: u.Field(i).Name(), typ: u.Field(i).Type()}, vals[i])
			}
			delete(l.initializing, r.String())
			return r, ptrTyp
		}
		s := l.p.sortOf(typ)
		if len(vals) == 0 {
			vals = append(vals, IntLit(0))
		}
		return App("mk_"+s, s, vals...), typ
	case *types.Slice:
		ss := l.p.sortOf(typ)
		es := l.p.sortOf(u.Elem())
		as := arraySort("Int", es)
		arr := App("(as const "+as+")", as, l.p.zeroOf(u.Elem()))
		n := int64(0)
		for _, e := range x.Elts {
			val := e
			if kv, ok := e.(*ast.KeyValueExpr); ok {
				val = kv.Value
				l.unsupported(x, "keyed slice literal")
			}
			var v *Term
			var vt types.Type
			if cl, ok := ast.Unparen(val).(*ast.CompositeLit); ok {
				if pe, isPtr := u.Elem().Underlying().(*types.Pointer); isPtr && cl.Type == nil {
					_ = pe
					v, vt = l.trComposite(cl, u.Elem())
				} else {
					v, vt = l.trComposite(cl, nil)
				}
			} else {
				v, vt = l.tr(val)
			}
			arr = Store(arr, IntLit(n), l.convertTo(v, vt, u.Elem()))
			n++
		}
		var res *Term
		res = l.p.reg.sMk(ss, arr, IntLit(0), IntLit(n), IntLit(n), tFalse)
		if ptrTyp != nil {
			r := l.alloc()
			l.store(&place{kind: pDeref, ref: r, typ: typ}, res)
			return r, ptrTyp
		}
		return res, typ
	case *types.Map:
		r := l.alloc()
		dom, _, card := l.mapVars(u)
		ks := l.p.sortOf(u.Key())
		l.assign(dom.Name, dom.Sort, Store(dom, r, App("(as const "+arraySort(ks, "Bool")+")", arraySort(ks, "Bool"), tFalse)))
		l.assign(card.Name, card.Sort, Store(card, r, IntLit(0)))
		for _, e := range x.Elts {
			kv := e.(*ast.KeyValueExpr)
			k, kt := l.tr(kv.Key)
			var v *Term
			var vt types.Type
			if cl, ok := ast.Unparen(kv.Value).(*ast.CompositeLit); ok {
				if _, isPtr := u.Elem().Underlying().(*types.Pointer); isPtr && cl.Type == nil {
					v, vt = l.trComposite(cl, u.Elem())
				} else {
					v, vt = l.trComposite(cl, nil)
				}
			} else {
				v, vt = l.tr(kv.Value)
			}
			l.store(&place{kind: pMap, ref: r, idx: l.convertTo(k, kt, u.Key()), typ: u.Elem(), mtyp: u}, l.convertTo(v, vt, u.Elem()))
		}
		return r, typ
	case *types.Array:
		as := l.p.sortOf(typ)
		arr := App("(as const "+as+")", as, l.p.zeroOf(u.Elem()))
		for i, e := range x.Elts {
			val := e
			if kv, ok := e.(*ast.KeyValueExpr); ok {
				val = kv.Value
			}
			v, vt := l.tr(val)
			arr = Store(arr, IntLit(int64(i)), l.convertTo(v, vt, u.Elem()))
		}
		return arr, typ
	}
	l.unsupported(x, "composite literal")
	return l.freshVal(typ), typ
}

// ---------------------------------------------------------------------------
// channels (abstract)

func (l *Lowerer) chanKey(e ast.Expr) string {
	if sel, ok := ast.Unparen(e).(*ast.SelectorExpr); ok && !l.isPkgSel(sel) {
		bt := l.typeOf(sel.X)
		if bt != nil {
			if n := namedOf(bt); n != "" {
				return l.p.keyPrefix(l.fr.fi.Pkg) + n + "." + sel.Sel.Name
			}
		}
	}
	return ""
}

func (l *Lowerer) chanSend(ch *Term, chExpr ast.Expr, v *Term, vt types.Type, node ast.Node) {
	defer l.havocChanLen()
	// ghost: number of values sent on each channel
	cnt := l.heapVar(chanSentVar(l.typeOf(chExpr)), "Int")
	l.assign(cnt.Name, cnt.Sort, Store(cnt, ch, Add(Select(cnt, ch), IntLit(1))))
	key := l.chanKey(chExpr)
	cs := l.p.chanSpecs[key]
	if cs == nil {
		return
	}
	l.chanClauses(cs, cs.OnSend, key, chExpr, v, vt, node)
}

func (l *Lowerer) chanClauses(cs *ChanSpec, clauses []*Clause, key string, chExpr ast.Expr, v *Term, vt types.Type, node ast.Node) {
	tn := l.tmp(v.Sort)
	l.assign(tn, v.Sort, v)
	v = V(tn, v.Sort)
	env := map[string]envEntry{cs.ElemVar: {v, vt}}
	if sel, ok := ast.Unparen(chExpr).(*ast.SelectorExpr); ok {
		o, ot := l.tr(sel.X)
		on := l.tmp(o.Sort)
		l.assign(on, o.Sort, o)
		env["owner"] = envEntry{V(on, o.Sort), ot}
	}
	l.callSnap++
	suffix := fmt.Sprintf("@c%d", l.callSnap)
	snapped := map[string]bool{}
	oldFn := func(name string) string {
		if strings.Contains(name, "@") {
			return name
		}
		snapped[name] = true
		return name + suffix
	}
	// requires first
	for _, c := range clauses {
		if c.Kind != "requires" {
			continue
		}
		t := l.clauseTerm(c, env, nil)
		lbl := "chan." + key
		if c.Label != "" {
			lbl += "." + c.Label
		}
		l.assertOb("pre", lbl, "channel "+key+": "+c.Src, node, t, nil)
	}
	snapBlock := l.cur
	snapIdx := 0
	if l.cur != nil {
		snapIdx = len(l.cur.Stmts)
	}
	savedSpec := l.spec
	l.spec = true
	l.pushEnv(env)
	for _, m := range cs.Modifies {
		l.havocItem(m, node)
	}
	l.popEnv()
	l.spec = savedSpec
	for _, c := range clauses {
		if c.Kind == "requires" {
			continue
		}
		l.assume(l.clauseTerm(c, env, oldFn))
	}
	if snapBlock != nil && len(snapped) > 0 {
		var names []string
		for n := range snapped {
			names = append(names, n)
		}
		sort.Strings(names)
		var ins []*Stmt
		for _, n := range names {
			s := l.f.Vars[n]
			l.f.declare(n+suffix, s)
			ins = append(ins, &Stmt{Kind: SAssign, Var: n + suffix, Sort: s, E: V(n, s)})
		}
		st := append([]*Stmt{}, snapBlock.Stmts[:snapIdx]...)
		st = append(st, ins...)
		st = append(st, snapBlock.Stmts[snapIdx:]...)
		snapBlock.Stmts = st
	}
}

func (l *Lowerer) clauseTerm(c *Clause, env map[string]envEntry, oldFn func(string) string) *Term {
	savedSpec, savedOld, savedGuard := l.spec, l.oldFn, l.guard
	l.spec, l.oldFn, l.guard = true, oldFn, nil
	l.pushEnv(env)
	t, _ := l.tr(c.Expr)
	l.popEnv()
	l.spec, l.oldFn, l.guard = savedSpec, savedOld, savedGuard
	return t
}

func (l *Lowerer) recv(chExpr ast.Expr, node ast.Node) (*Term, types.Type) {
	ch, ct := l.tr(chExpr)
	cht, ok := ct.Underlying().(*types.Chan)
	if !ok {
		l.unsupported(node, "receive from non-channel")
		return l.freshVal(l.typeOf(node.(ast.Expr))), l.typeOf(node.(ast.Expr))
	}
	return l.recvFrom(ch, chExpr, cht.Elem(), node)
}

func (l *Lowerer) recvFrom(ch *Term, chExpr ast.Expr, elem types.Type, node ast.Node) (*Term, types.Type) {
	v := l.freshVal(elem)
	key := l.chanKey(chExpr)
	if cs := l.p.chanSpecs[key]; cs != nil && len(cs.OnRecv) > 0 {
		env := map[string]envEntry{cs.ElemVar: {v, elem}}
		if sel, ok := ast.Unparen(chExpr).(*ast.SelectorExpr); ok {
			o, ot := l.tr(sel.X)
			env["owner"] = envEntry{o, ot}
		}
		for _, c := range cs.OnRecv {
			l.assume(l.clauseTerm(c, env, nil))
		}
		l.note("A-conc: elements received from " + key + " satisfy the channel predicate (checked at send sites under contract)")
	}
	return v, elem
}

func (l *Lowerer) chanClose(ch *Term, chExpr ast.Expr, node ast.Node) {
	// ghost closed flag per channel reference: closing twice is an error
	hv := l.heapVar("F.$chan.closed", "Bool")
	l.safety("close", "close of closed channel: "+l.exprText(node), node, Not(Select(hv, ch)))
	l.assign(hv.Name, hv.Sort, Store(hv, ch, tTrue))
}

// lockOp: monitor discipline. Acquiring a lock that guards fields (declared with `guarded`) havocs those
// fields of the owner (other goroutines may have changed them) and records the state acq(...) refers to;
// while the lock is held the fields are this goroutine's alone (mutex atomicity, A-conc).
func (l *Lowerer) lockOp(lock *Term, acquire bool, node ast.Node) {
	if lock == nil {
		return
	}
	hv := l.heapVar("F.$lock.held", "Bool")
	if !acquire {
		l.assign(hv.Name, hv.Sort, Store(hv, lock, tFalse))
		return
	}
	l.assign(hv.Name, hv.Sort, Store(hv, lock, tTrue))
	l.f.declare("$acquired", "Bool")
	l.assign("$acquired", "Bool", tTrue)
	if strings.HasPrefix(lock.Op, "addr.") && len(lock.Args) == 1 {
		key := strings.TrimPrefix(lock.Op, "addr.")
		if fields, ok := l.p.guardedBy[key]; ok {
			owner := key[:strings.LastIndex(key, ".")]
			for _, f := range fields {
				if strings.HasPrefix(f, "contents(") {
					// the map held in this (stable) field: its contents may have been changed by others
					fn := strings.TrimSuffix(strings.TrimPrefix(f, "contents("), ")")
					ft := l.p.fieldType(owner, fn)
					mt, ok := ft.Underlying().(*types.Map)
					if !ok {
						continue
					}
					mref := l.load(&place{kind: pHeap, ref: lock.Args[0], owner: owner, path: fn, typ: ft})
					dom, val, card := l.mapVars(mt)
					for _, hvv := range []*Term{dom, val, card} {
						es := arrayElemSort(hvv.Sort)
						tn := l.tmp(es)
						l.havoc(tn, es)
						l.assign(hvv.Name, hvv.Sort, Store(hvv, mref, V(tn, es)))
					}
					continue
				}
				name := l.fieldHeapName(owner, f)
				srt, known := l.f.Vars[name]
				if !known {
					// declare lazily with the field's sort
					if t := l.p.fieldType(owner, f); t != nil {
						srt = arraySort("Int", l.p.sortOf(t))
						l.f.declare(name, srt)
						l.f.HeapVars[name] = true
						l.p.heapVarTypes[name] = t
					} else {
						continue
					}
				}
				es := arrayElemSort(srt)
				tn := l.tmp(es)
				l.havoc(tn, es)
				if t, ok := l.p.heapVarTypes[name]; ok {
					l.wf(V(tn, es), t)
				}
				l.assign(name, srt, Store(V(name, srt), lock.Args[0], V(tn, es)))
			}
			l.note("A-conc: fields guarded by " + key + " are havocked when the lock is acquired; contracts speak about the critical section (acq(...) = state at acquisition)")
		}
	}
	l.lockInvariant(lock, true, node)
	if l.topCt != nil && l.fr != nil && l.fr.parent == nil {
		for _, c := range l.topCt.AcqAssumes {
			l.assume(l.specTerm(c, nil))
			l.note("assumed at lock acquisition: " + c.Src)
		}
	}
	if l.cur != nil {
		l.acqPoints = append(l.acqPoints, acqPoint{l.cur, len(l.cur.Stmts)})
	}
}

// lockInvariant assumes (at acquisition) or proves (at release of the write lock) the monitor invariant
// declared for the lock.
func (l *Lowerer) lockInvariant(lock *Term, assume bool, node ast.Node) {
	if lock == nil || !strings.HasPrefix(lock.Op, "addr.") || len(lock.Args) != 1 || l.cur == nil {
		return
	}
	key := strings.TrimPrefix(lock.Op, "addr.")
	invs := l.p.lockInvs[key]
	if len(invs) == 0 {
		return
	}
	owner := key[:strings.LastIndex(key, ".")]
	ot := l.p.namedType(owner)
	if ot == nil {
		return
	}
	for _, li := range invs {
		env := map[string]envEntry{li.Self: {lock.Args[0], types.NewPointer(ot)}}
		savedSpec, savedOld, savedGuard := l.spec, l.oldFn, l.guard
		l.spec = true
		l.guard = nil
		l.pushEnv(env)
		t, _ := l.tr(li.C.Expr)
		l.popEnv()
		l.spec, l.oldFn, l.guard = savedSpec, savedOld, savedGuard
		if assume {
			l.assumeTagged(t, li.C.Label)
		} else {
			l.assertOb("lock-inv", li.C.Label, li.C.Src, node, t, li.C.Props)
			l.tagLastOb(li.C.Label, li.C.Uses...)
		}
	}
}

// chanSentVar: the ghost send counter of channels of one element type (channels of different types are
// different objects).
func chanSentVar(t types.Type) string {
	name := "any"
	if t != nil {
		if ct, ok := t.Underlying().(*types.Chan); ok {
			name = types.TypeString(ct.Elem(), func(*types.Package) string { return "" })
			name = strings.NewReplacer("[", "_", "]", "_", "*", "p", " ", "", "{", "_", "}", "_", ".", "_", "(", "_", ")", "_", ",", "_").Replace(name)
		}
	}
	return "F.$chan.sent." + name
}

// tagLastOb records the clause family of the obligation emitted last.
func (l *Lowerer) tagLastOb(tag string, uses ...string) {
	if tag == "" || l.cur == nil || len(l.cur.Stmts) == 0 {
		return
	}
	if st := l.cur.Stmts[len(l.cur.Stmts)-1]; st.Kind == SAssert && st.Ob != nil {
		st.Ob.Tag = tag
		st.Ob.Uses = uses
	}
}

// clauseUses: the families a clause declares it needs (+name in its label); an invariant that restates a
// monitor-invariant clause inherits that clause's list.
func (l *Lowerer) clauseUses(c *Clause) []string {
	out := append([]string{}, c.Uses...)
	if ce, ok := ast.Unparen(c.Expr).(*ast.CallExpr); ok && len(ce.Args) == 2 {
		if id, ok := ce.Fun.(*ast.Ident); ok && id.Name == "lockinv" {
			if lab, ok := ce.Args[1].(*ast.Ident); ok {
				for _, invs := range l.p.lockInvs {
					for _, li := range invs {
						if li.C.Label == lab.Name {
							out = append(out, li.C.Uses...)
						}
					}
				}
			}
		}
	}
	return out
}
