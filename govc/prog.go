package main

import (
	"fmt"
	"go/ast"
	"go/token"
	"go/types"
	"sort"
	"strings"

	"golang.org/x/tools/go/packages"
)

// Prog holds the loaded packages of /repo (current working tree) and the contracts.
type Prog struct {
	fset           *token.FileSet
	pkgs           []*packages.Package
	reg            *SortReg
	contracts      map[string]*Contract
	ghostFields    map[string]map[string]string // struct type name -> ghost field -> go type text
	funcs          map[string]*FuncInfo
	funcByObj      map[*types.Func]*FuncInfo
	litInfo        map[*ast.FuncLit]*FuncInfo
	typeIDs        map[string]int
	strLits        map[string]string
	modsets        map[string]map[string]bool // func key -> set of heap var names ("*" = everything)
	warnings       []string
	repoDir        string
	chanSpecs      map[string]*ChanSpec
	sentinels      map[string]bool
	globalInits    map[types.Object]ast.Expr
	globalDecl     map[types.Object]bool
	globalAssigned map[types.Object]bool
	implCache      map[string][]types.Type
	ghostFuns      map[string]*ghostFun
	heapVarTypes   map[string]types.Type
	autoContracts  map[string]*Contract
	boxedCache     map[*FuncInfo]map[types.Object]bool
	opts           lowerOpts
	lemmas         []*Clause
	axioms         []*Clause
	ghostFunDecls  []ghostFunDecl
	guardedBy      map[string][]string   // "Type.lockField" -> fields protected by that lock
	lockInvs       map[string][]*LockInv // "Type.lockField" -> monitor invariant clauses
	leanProofs     []leanProof
	boundedChecks  []boundedCheck
	wireCache      map[string]*wirePair
	wireProps      []string
	implFuns       map[string]bool
	wireTypes      map[string]map[string]bool // property -> types (nil: every pair)
	wireClauses    map[string]map[string]bool // property -> clause labels (nil: all)
}

type ghostFunDecl struct {
	name string
	args []string
	res  string
}

// lowerOpts: options of a lowering run (replay search uses unrolled loops and a concrete decoder).
type lowerOpts struct {
	unroll     int  // >0: unroll loops this many times instead of cutting them (bounded search for inputs only)
	concretePD bool // treat packetDecoder parameters as *realDecoder
}

type FuncInfo struct {
	Key       string
	Pkg       *packages.Package
	Decl      *ast.FuncDecl
	Lit       *ast.FuncLit
	Obj       *types.Func
	Sig       *types.Signature
	Body      *ast.BlockStmt
	Parent    *FuncInfo
	Lits      []*FuncInfo
	Iface     *types.Interface // for interface methods (no body)
	IfaceName string
}

func (f *FuncInfo) RecvNamed() string {
	if f.Sig == nil || f.Sig.Recv() == nil {
		return ""
	}
	return namedOf(f.Sig.Recv().Type())
}

func namedOf(t types.Type) string {
	if p, ok := t.(*types.Pointer); ok {
		t = p.Elem()
	}
	if n, ok := t.(*types.Named); ok {
		return n.Obj().Name()
	}
	return ""
}

func loadProg(repo string) (*Prog, error) {
	cfg := &packages.Config{
		Mode: packages.NeedName | packages.NeedFiles | packages.NeedSyntax | packages.NeedTypes |
			packages.NeedTypesInfo | packages.NeedImports | packages.NeedDeps,
		Dir:        repo,
		BuildFlags: []string{"-tags=verif"},
	}
	pkgs, err := packages.Load(cfg, "github.com/Shopify/sarama", "github.com/Shopify/sarama/mocks")
	if err != nil {
		return nil, err
	}
	p := &Prog{
		reg: NewSortReg(), contracts: map[string]*Contract{}, funcs: map[string]*FuncInfo{},
		funcByObj: map[*types.Func]*FuncInfo{}, litInfo: map[*ast.FuncLit]*FuncInfo{},
		typeIDs: map[string]int{}, strLits: map[string]string{}, modsets: map[string]map[string]bool{},
		ghostFields: map[string]map[string]string{}, repoDir: repo, chanSpecs: map[string]*ChanSpec{},
		sentinels: map[string]bool{}, ghostFuns: map[string]*ghostFun{}, heapVarTypes: map[string]types.Type{},
		autoContracts: map[string]*Contract{}, boxedCache: map[*FuncInfo]map[types.Object]bool{},
		guardedBy: map[string][]string{},
		lockInvs:  map[string][]*LockInv{},
	}
	for _, pk := range pkgs {
		if len(pk.Errors) > 0 {
			return nil, fmt.Errorf("package %s has errors: %v", pk.PkgPath, pk.Errors[0])
		}
		p.fset = pk.Fset
	}
	sort.Slice(pkgs, func(i, j int) bool { return pkgs[i].PkgPath < pkgs[j].PkgPath })
	p.pkgs = pkgs
	for _, pk := range pkgs {
		p.indexPkg(pk)
	}
	return p, nil
}

func (p *Prog) keyPrefix(pk *packages.Package) string {
	if strings.HasSuffix(pk.PkgPath, "/mocks") {
		return "mocks."
	}
	return ""
}

func (p *Prog) indexPkg(pk *packages.Package) {
	for _, f := range pk.Syntax {
		fname := p.fset.Position(f.Pos()).Filename
		if strings.HasSuffix(fname, "_test.go") {
			continue
		}
		for _, d := range f.Decls {
			// function literals in the initialisers of package-level variables: <Var>#lit<k>
			if gd, ok := d.(*ast.GenDecl); ok && gd.Tok == token.VAR {
				for _, sp := range gd.Specs {
					vs := sp.(*ast.ValueSpec)
					for i, nm := range vs.Names {
						if i < len(vs.Values) && nm.Name != "_" {
							holder := &FuncInfo{Key: p.keyPrefix(pk) + nm.Name, Pkg: pk}
							p.indexLits(holder, vs.Values[i])
						}
					}
				}
				continue
			}
			fd, ok := d.(*ast.FuncDecl)
			if !ok || fd.Body == nil {
				continue
			}
			obj, _ := pk.TypesInfo.Defs[fd.Name].(*types.Func)
			if obj == nil {
				continue
			}
			sig := obj.Type().(*types.Signature)
			key := p.keyPrefix(pk)
			if sig.Recv() != nil {
				key += namedOf(sig.Recv().Type()) + "."
			}
			key += fd.Name.Name
			fi := &FuncInfo{Key: key, Pkg: pk, Decl: fd, Obj: obj, Sig: sig, Body: fd.Body}
			p.funcs[key] = fi
			p.funcByObj[obj] = fi
			p.indexLits(fi, fd.Body)
		}
	}
	// interface methods declared in the package
	scope := pk.Types.Scope()
	for _, name := range scope.Names() {
		tn, ok := scope.Lookup(name).(*types.TypeName)
		if !ok {
			continue
		}
		it, ok := tn.Type().Underlying().(*types.Interface)
		if !ok {
			continue
		}
		for i := 0; i < it.NumExplicitMethods(); i++ {
			m := it.ExplicitMethod(i)
			key := p.keyPrefix(pk) + name + "." + m.Name()
			if _, dup := p.funcs[key]; dup {
				continue
			}
			fi := &FuncInfo{Key: key, Pkg: pk, Obj: m, Sig: m.Type().(*types.Signature), Iface: it, IfaceName: name}
			p.funcs[key] = fi
			if _, ok := p.funcByObj[m]; !ok {
				p.funcByObj[m] = fi
			}
		}
	}
}

// indexLits registers function literals in pre-order as Parent#litK.
func (p *Prog) indexLits(parent *FuncInfo, body ast.Node) {
	root := parent
	for root.Parent != nil {
		root = root.Parent
	}
	ast.Inspect(body, func(n ast.Node) bool {
		fl, ok := n.(*ast.FuncLit)
		if !ok {
			return true
		}
		key := fmt.Sprintf("%s#lit%d", root.Key, len(root.Lits))
		sig, _ := parent.Pkg.TypesInfo.TypeOf(fl).(*types.Signature)
		fi := &FuncInfo{Key: key, Pkg: parent.Pkg, Lit: fl, Sig: sig, Body: fl.Body, Parent: parent}
		root.Lits = append(root.Lits, fi)
		p.funcs[key] = fi
		p.litInfo[fl] = fi
		p.indexLits(fi, fl.Body)
		return false
	})
}

func (p *Prog) warn(format string, args ...interface{}) {
	p.warnings = append(p.warnings, fmt.Sprintf(format, args...))
}

func (p *Prog) inRepo(pkg *types.Package) bool {
	return pkg != nil && strings.HasPrefix(pkg.Path(), "github.com/Shopify/sarama")
}

// ---------------------------------------------------------------------------
// Go types -> SMT sorts

func isRefLike(t types.Type) bool {
	switch u := t.Underlying().(type) {
	case *types.Pointer, *types.Interface, *types.Signature, *types.Chan, *types.Map:
		return true
	case *types.Basic:
		return u.Kind() == types.UnsafePointer || u.Kind() == types.UntypedNil
	}
	return false
}

func (p *Prog) isOpaqueStruct(t types.Type) bool {
	if _, ok := t.Underlying().(*types.Struct); !ok {
		return false
	}
	if n, ok := t.(*types.Named); ok {
		return !p.inRepo(n.Obj().Pkg())
	}
	if a, ok := t.(*types.Alias); ok {
		return p.isOpaqueStruct(types.Unalias(a))
	}
	return false
}

func (p *Prog) structName(t types.Type) string {
	t = types.Unalias(t)
	if n, ok := t.(*types.Named); ok {
		pre := ""
		if n.Obj().Pkg() != nil && strings.HasSuffix(n.Obj().Pkg().Path(), "/mocks") {
			pre = "mocks."
		}
		return pre + n.Obj().Name()
	}
	// anonymous struct: name by position-independent digest of its string form
	return "anon" + fmt.Sprint(hashString(t.String()))
}

func hashString(s string) uint32 {
	var h uint32 = 2166136261
	for i := 0; i < len(s); i++ {
		h ^= uint32(s[i])
		h *= 16777619
	}
	return h
}

func (p *Prog) sortOf(t types.Type) string {
	if t == nil {
		return "Int"
	}
	t = types.Unalias(t)
	if p.isOpaqueStruct(t) {
		return "Int"
	}
	switch u := t.Underlying().(type) {
	case *types.Basic:
		info := u.Info()
		switch {
		case info&types.IsBoolean != 0:
			return "Bool"
		case info&types.IsInteger != 0:
			return "Int"
		case info&types.IsString != 0:
			return "Str"
		case info&types.IsFloat != 0:
			return "Real"
		}
		return "Int"
	case *types.Pointer, *types.Interface, *types.Signature, *types.Chan, *types.Map:
		return "Int"
	case *types.Slice:
		return p.reg.SliceSort(p.sortOf(u.Elem()))
	case *types.Array:
		return arraySort("Int", p.sortOf(u.Elem()))
	case *types.Struct:
		name := p.structName(t)
		var fs, ss []string
		for i := 0; i < u.NumFields(); i++ {
			fs = append(fs, u.Field(i).Name())
			ss = append(ss, p.sortOf(u.Field(i).Type()))
		}
		if len(fs) == 0 {
			fs = append(fs, "$unit")
			ss = append(ss, "Int")
		}
		return p.reg.StructSort(name, fs, ss)
	case *types.Tuple:
		return "Int"
	}
	return "Int"
}

// intRange returns the value range of an integer type (64-bit int/uint).
func intRange(t types.Type) (lo, hi string, ok bool) {
	b, isb := t.Underlying().(*types.Basic)
	if !isb || b.Info()&types.IsInteger == 0 {
		return "", "", false
	}
	switch b.Kind() {
	case types.Int8:
		return "(- 128)", "127", true
	case types.Int16:
		return "(- 32768)", "32767", true
	case types.Int32:
		return "(- 2147483648)", "2147483647", true
	case types.Int, types.Int64, types.UntypedInt:
		return "(- 9223372036854775808)", "9223372036854775807", true
	case types.Uint8:
		return "0", "255", true
	case types.Uint16:
		return "0", "65535", true
	case types.Uint32:
		return "0", "4294967295", true
	case types.Uint, types.Uint64, types.Uintptr:
		return "0", "18446744073709551615", true
	}
	return "", "", false
}

func wrapFn(t types.Type) string {
	b, isb := t.Underlying().(*types.Basic)
	if !isb {
		return ""
	}
	switch b.Kind() {
	case types.Int8:
		return "wrap8"
	case types.Int16:
		return "wrap16"
	case types.Int32:
		return "wrap32"
	case types.Int, types.Int64:
		return "wrap64"
	case types.Uint8:
		return "uwrap8"
	case types.Uint16:
		return "uwrap16"
	case types.Uint32:
		return "uwrap32"
	case types.Uint, types.Uint64, types.Uintptr:
		return "uwrap64"
	}
	return ""
}

func (p *Prog) typeID(t types.Type) *Term {
	s := types.TypeString(types.Unalias(t), nil)
	id, ok := p.typeIDs[s]
	if !ok {
		id = len(p.typeIDs) + 1
		p.typeIDs[s] = id
	}
	return IntLit(int64(id))
}

func (p *Prog) strLit(s string) *Term {
	name, ok := p.strLits[s]
	if !ok {
		name = fmt.Sprintf("strlit%d", len(p.strLits))
		p.strLits[s] = name
		p.reg.Fun(name, nil, "Str")
		p.reg.Axiom(name, fmt.Sprintf("(= (strlen %s) %d)", name, len(s)))
	}
	return App(name, "Str")
}

// zero value of a Go type
func (p *Prog) zeroOf(t types.Type) *Term {
	t = types.Unalias(t)
	s := p.sortOf(t)
	switch s {
	case "Int":
		return IntLit(0)
	case "Bool":
		return tFalse
	case "Real":
		return Lit("0.0", "Real")
	case "Str":
		return p.strLit("")
	}
	switch u := t.Underlying().(type) {
	case *types.Slice:
		return p.nilSlice(s)
	case *types.Array:
		return App("(as const "+s+")", s, p.zeroOf(u.Elem()))
	case *types.Struct:
		args := []*Term{}
		for i := 0; i < u.NumFields(); i++ {
			args = append(args, p.zeroOf(u.Field(i).Type()))
		}
		if len(args) == 0 {
			args = append(args, IntLit(0))
		}
		return App("mk_"+s, s, args...)
	}
	return IntLit(0)
}

func (p *Prog) nilSlice(sort string) *Term {
	es := p.reg.sliceElem(sort)
	as := arraySort("Int", es)
	cn := "arr0_" + sortIdent(es)
	p.reg.Fun(cn, nil, as)
	return p.reg.sMk(sort, App(cn, as), IntLit(0), IntLit(0), IntLit(0), tTrue)
}

func (p *Prog) prefixOfType(t types.Type) string {
	t = types.Unalias(t)
	if pt, ok := t.(*types.Pointer); ok {
		t = types.Unalias(pt.Elem())
	}
	if n, ok := t.(*types.Named); ok && n.Obj().Pkg() != nil && strings.HasSuffix(n.Obj().Pkg().Path(), "/mocks") {
		return "mocks."
	}
	return ""
}

// fieldType finds the type of a field of a named struct type of the repository.
func (p *Prog) fieldType(owner, field string) types.Type {
	name := owner
	pk := p.pkgs[0]
	if strings.HasPrefix(owner, "mocks.") {
		name = strings.TrimPrefix(owner, "mocks.")
		pk = p.pkgs[len(p.pkgs)-1]
	}
	tn, ok := pk.Types.Scope().Lookup(name).(*types.TypeName)
	if !ok {
		return nil
	}
	st, ok := tn.Type().Underlying().(*types.Struct)
	if !ok {
		return nil
	}
	for i := 0; i < st.NumFields(); i++ {
		if st.Field(i).Name() == field {
			return st.Field(i).Type()
		}
	}
	return nil
}

// namedType: the named type "T" / "mocks.T" of the loaded packages.
func (p *Prog) namedType(owner string) types.Type {
	name := owner
	pk := p.pkgs[0]
	if strings.HasPrefix(owner, "mocks.") {
		name = strings.TrimPrefix(owner, "mocks.")
		pk = p.pkgs[len(p.pkgs)-1]
	}
	tn, ok := pk.Types.Scope().Lookup(name).(*types.TypeName)
	if !ok {
		return nil
	}
	return tn.Type()
}
