package main

// Replay of a failed wire/<T>/dual or wire/<T>/fields obligation on the real code: a value of T with every field
// populated (reflection; two elements per slice, one entry per map) is encoded at the protocol version the
// comparison failed for, decoded with T.decode and encoded again. The round trip must succeed and give the same
// bytes. Only (type, version) pairs for which this harness passed on the pinned tree (baseline) count as a
// reproduction when it fails, so the harness itself cannot raise an alarm.

import (
	"encoding/json"
	"fmt"
	"go/types"
	"os"
	"path/filepath"
	"regexp"
	"sort"
	"strings"
)

const wireReplayPrelude = `package sarama

import (
	"bytes"
	"fmt"
	"reflect"
	"testing"
	"time"
	"unsafe"
)

var verifSeq int

// verifVariant: 0 every collection populated; 1 every collection empty; 2 the first collection among the value's
// own fields empty, the others populated; 3 as 0 with every pointer to a string, number or boolean nil (absent).
var verifVariant int
var verifEmptied bool

func verifFill(v reflect.Value, depth int) {
	if !v.CanSet() {
		if !v.CanAddr() {
			return
		}
		v = reflect.NewAt(v.Type(), unsafe.Pointer(v.UnsafeAddr())).Elem()
	}
	verifSeq++
	switch v.Kind() {
	case reflect.Bool:
		v.SetBool(true)
	case reflect.Int, reflect.Int8, reflect.Int16, reflect.Int32, reflect.Int64:
		if v.Type() == reflect.TypeOf(time.Duration(0)) {
			v.SetInt(int64(time.Duration(verifSeq%50+1) * time.Millisecond))
			return
		}
		v.SetInt(int64(verifSeq%5 + 1))
	case reflect.Uint, reflect.Uint8, reflect.Uint16, reflect.Uint32, reflect.Uint64:
		v.SetUint(uint64(verifSeq%5 + 1))
	case reflect.String:
		v.SetString(fmt.Sprintf("s%d", verifSeq))
	case reflect.Ptr:
		if depth > 6 {
			return
		}
		if verifVariant == 3 && v.Type().Elem().Kind() != reflect.Struct {
			return
		}
		n := reflect.New(v.Type().Elem())
		verifFill(n.Elem(), depth+1)
		v.Set(n)
	case reflect.Slice:
		if depth > 6 || verifVariant == 1 {
			return
		}
		if verifVariant == 2 && depth == 1 && !verifEmptied && v.Type().Elem().Kind() != reflect.Uint8 {
			verifEmptied = true
			return
		}
		n := reflect.MakeSlice(v.Type(), 2, 2)
		for i := 0; i < 2; i++ {
			verifFill(n.Index(i), depth+1)
		}
		v.Set(n)
	case reflect.Map:
		if depth > 6 || verifVariant == 1 {
			return
		}
		if verifVariant == 2 && depth == 1 && !verifEmptied {
			verifEmptied = true
			return
		}
		n := reflect.MakeMap(v.Type())
		k := reflect.New(v.Type().Key()).Elem()
		verifFill(k, depth+1)
		e := reflect.New(v.Type().Elem()).Elem()
		verifFill(e, depth+1)
		n.SetMapIndex(k, e)
		v.Set(n)
	case reflect.Struct:
		if v.Type() == reflect.TypeOf(time.Time{}) {
			v.Set(reflect.ValueOf(time.Unix(1600000000+int64(verifSeq), 0)))
			return
		}
		for i := 0; i < v.NumField(); i++ {
			verifFill(v.Field(i), depth+1)
		}
	case reflect.Array:
		for i := 0; i < v.Len(); i++ {
			verifFill(v.Index(i), depth+1)
		}
	}
}

// verifSetVersion sets every field named Version (in the value and in the blocks it holds) to the version.
func verifSetVersion(v reflect.Value, version int16, depth int) {
	if depth > 8 {
		return
	}
	switch v.Kind() {
	case reflect.Ptr:
		if !v.IsNil() {
			verifSetVersion(v.Elem(), version, depth+1)
		}
	case reflect.Slice, reflect.Array:
		for i := 0; i < v.Len(); i++ {
			verifSetVersion(v.Index(i), version, depth+1)
		}
	case reflect.Map:
		for _, k := range v.MapKeys() {
			verifSetVersion(v.MapIndex(k), version, depth+1)
		}
	case reflect.Struct:
		for i := 0; i < v.NumField(); i++ {
			f := v.Field(i)
			if v.Type().Field(i).Name == "Version" && f.CanAddr() {
				f = reflect.NewAt(f.Type(), unsafe.Pointer(f.UnsafeAddr())).Elem()
				switch f.Kind() {
				case reflect.Int, reflect.Int8, reflect.Int16, reflect.Int32, reflect.Int64:
					f.SetInt(int64(version))
				}
				continue
			}
			verifSetVersion(f, version, depth+1)
		}
	}
}

type verifEncFunc func(pe packetEncoder) error

func (f verifEncFunc) encode(pe packetEncoder) error { return f(pe) }

type verifDecFunc func(pd packetDecoder) error

func (f verifDecFunc) decode(pd packetDecoder) error { return f(pd) }

func verifRoundTrip(t *testing.T, name string, version int16, mk func() interface{}, enc func(v interface{}, pe packetEncoder) error, dec func(pd packetDecoder) (interface{}, error)) {
	for variant := 0; variant < 4; variant++ {
		verifRoundTripOne(t, name, version, variant, mk(), enc, dec)
	}
}

func verifRoundTripOne(t *testing.T, name string, version int16, variant int, in interface{}, enc func(v interface{}, pe packetEncoder) error, dec func(pd packetDecoder) (interface{}, error)) {
	defer func() {
		if r := recover(); r != nil {
			t.Fatalf("VERIF-REPRO %s version %d: the round trip panics: %v", name, version, r)
		}
	}()
	verifSeq, verifVariant, verifEmptied = 0, variant, false
	verifFill(reflect.ValueOf(in).Elem(), 0)
	verifSetVersion(reflect.ValueOf(in), version, 0)
	buf, err := encode(verifEncFunc(func(pe packetEncoder) error { return enc(in, pe) }), nil)
	if err != nil {
		if variant == 0 {
			t.Skipf("VERIF-SKIP encode rejects the generated value: %v", err)
		}
		return
	}
	var out interface{}
	err = decode(buf, verifDecFunc(func(pd packetDecoder) (e error) { out, e = dec(pd); return e }))
	if err != nil {
		t.Fatalf("VERIF-REPRO %s version %d: the bytes written by encode do not decode: %v\nvalue: %+v\nbytes: %x", name, version, err, in, buf)
	}
	buf2, err := encode(verifEncFunc(func(pe packetEncoder) error { return enc(out, pe) }), nil)
	if err != nil {
		t.Fatalf("VERIF-REPRO %s version %d: the decoded value does not encode: %v\nvalue: %+v\ndecoded: %+v", name, version, err, in, out)
	}
	if !bytes.Equal(buf, buf2) {
		t.Fatalf("VERIF-REPRO %s version %d: encode, decode, encode gives different bytes\nvalue:   %+v\ndecoded: %+v\nbytes:   %x\nre-encoded: %x", name, version, in, out, buf, buf2)
	}
}

func TestVerifWireReplay(t *testing.T) {
`

// wireReplayable: the pair's signatures are ones the harness can call.
func wireReplayCalls(pr *wirePair) (encCall, decCall string, ok bool) {
	sig := func(f *wFunc, recvName string) (string, bool) {
		s := f.fi.Sig
		args := []string{"c"}
		for i := 1; i < s.Params().Len(); i++ {
			p := s.Params().At(i)
			if p.Name() == "version" && types.Identical(p.Type(), types.Typ[types.Int16]) {
				args = append(args, "version")
			} else {
				return "", false
			}
		}
		call := recvName + "." + f.side + "(" + strings.Join(args, ", ") + ")"
		switch s.Results().Len() {
		case 0:
			return call + "; return nil", true
		case 1:
			if s.Results().At(0).Type().String() == "error" {
				return "return " + call, true
			}
		}
		return "", false
	}
	e, ok1 := sig(pr.enc, "x")
	d, ok2 := sig(pr.dec, "x")
	if !ok1 || !ok2 {
		return "", "", false
	}
	if _, isPtr := pr.enc.fi.Sig.Recv().Type().(*types.Pointer); !isPtr {
		return "", "", false
	}
	if _, isPtr := pr.dec.fi.Sig.Recv().Type().(*types.Pointer); !isPtr {
		return "", "", false
	}
	return e, d, true
}

// wireReplaySource: one subtest per (type, version).
func (p *Prog) wireReplaySource(cases map[string][]int64) string {
	var sb strings.Builder
	sb.WriteString(wireReplayPrelude)
	pairs := p.wirePairMap()
	var names []string
	for n := range cases {
		names = append(names, n)
	}
	sort.Strings(names)
	for _, n := range names {
		pr := pairs[n]
		if pr == nil {
			continue
		}
		e, d, ok := wireReplayCalls(pr)
		if !ok {
			continue
		}
		for _, v := range cases[n] {
			fmt.Fprintf(&sb, "\tt.Run(\"%s/v%d\", func(t *testing.T) {\n\t\tconst version = int16(%d)\n\t\t_ = version\n", n, v, v)
			fmt.Fprintf(&sb, "\t\tverifRoundTrip(t, %q, version, func() interface{} { return new(%s) },\n", n, n)
			fmt.Fprintf(&sb, "\t\t\tfunc(v interface{}, c packetEncoder) error { x := v.(*%s); %s },\n", n, strings.Replace(e, "c", "c", 1))
			fmt.Fprintf(&sb, "\t\t\tfunc(c packetDecoder) (interface{}, error) { x := new(%s); err := func() error { %s }(); return x, err })\n\t})\n", n, d)
		}
	}
	sb.WriteString("}\n")
	return sb.String()
}

var reSubtest = regexp.MustCompile(`(?m)^\s*--- (PASS|FAIL|SKIP): TestVerifWireReplay/([^/\s]+)/v(\d+)`)

// wireReplayRun: runs the harness on /repo's working tree; key "T/vN" -> pass | fail | skip, and the output.
func (p *Prog) wireReplayRun(src, file string) (map[string]string, string, string) {
	os.MkdirAll(filepath.Dir(file), 0o755)
	os.WriteFile(file, []byte(src), 0o644)
	out, cmdline := runOverlayTest(file, "TestVerifWireReplay")
	res := map[string]string{}
	for _, m := range reSubtest.FindAllStringSubmatch(out, -1) {
		res[m[2]+"/v"+m[3]] = strings.ToLower(m[1])
	}
	return res, out, cmdline
}

// wireReplayBaseline: the (type, version) pairs for which the harness passes on the current tree.
func (p *Prog) wireReplayBaseline() []string {
	cases := map[string][]int64{}
	for _, pr := range p.wirePairs() {
		v := p.wireCheck(pr)
		if v.Status != "unsat" {
			continue
		}
		cases[pr.Type] = p.wireReplayPoints(pr, map[string]bool{})
	}
	res, out, _ := p.wireReplayRun(p.wireReplaySource(cases), filepath.Join(verifDir, "out", "replay", "wire_baseline_test.go"))
	var ok []string
	for k, st := range res {
		if st == "pass" {
			ok = append(ok, k)
		}
	}
	sort.Strings(ok)
	if len(res) == 0 {
		fmt.Println("wire replay harness did not run:", truncate(out, 3000))
	}
	return ok
}

// wireReplay: tries to reproduce a failed wire obligation; returns the replay file and whether it reproduced.
func (p *Prog) wireReplay(prop string, r *Result, base *baselineFile) (string, bool) {
	if os.Getenv("VERIF_NO_REPLAY") != "" {
		return "", false
	}
	tn := strings.TrimSuffix(strings.TrimPrefix(r.Ob.Name, "wire/"), "/"+r.Ob.Label)
	trusted := map[string]bool{}
	var versions []int64
	for _, k := range base.WireReplay {
		if strings.HasPrefix(k, tn+"/v") {
			trusted[k] = true
			var v int64
			fmt.Sscanf(strings.TrimPrefix(k, tn+"/v"), "%d", &v)
			versions = append(versions, v)
		}
	}
	// also the types that contain this block: a nested block is exercised through its users
	cases := map[string][]int64{}
	if len(versions) > 0 {
		cases[tn] = versions
	}
	for _, k := range base.WireReplay {
		i := strings.Index(k, "/v")
		user := k[:i]
		if user == tn {
			continue
		}
		if pr := p.wirePairMap()[user]; pr != nil && pr.uses(tn) {
			var v int64
			fmt.Sscanf(k[i+2:], "%d", &v)
			cases[user] = append(cases[user], v)
			trusted[k] = true
		}
	}
	if len(cases) == 0 {
		return "", false
	}
	dir := filepath.Join(verifDir, "replays", prop)
	os.MkdirAll(dir, 0o755)
	file := filepath.Join(dir, sanitizeFile(r.Ob.Name)+"_replay_test.go")
	res, out, cmdline := p.wireReplayRun(p.wireReplaySource(cases), file)
	var failing []string
	for k, st := range res {
		if st == "fail" && trusted[k] && strings.Contains(out, "VERIF-REPRO "+k[:strings.Index(k, "/v")]+" version "+k[strings.Index(k, "/v")+2:]+":") {
			failing = append(failing, k)
		}
	}
	sort.Strings(failing)
	if len(failing) == 0 {
		os.Remove(file)
		os.Remove(file + ".overlay.json")
		return "", false
	}
	// keep the part of the output that belongs to the first failing case
	rec := &replayRecord{Property: prop, Obligation: r.Ob.Name, Function: r.Ob.Func, Clause: r.Ob.Descr, Pos: r.Ob.Pos,
		Shape: "wire-roundtrip", Inputs: map[string]string{"failing (type/version) cases": strings.Join(failing, " "), "verifier": truncate(r.Output, 4000)},
		TestFile: file, Cmd: cmdline, Output: truncate(grepRepro(out), 8000), Reproduced: true,
		Criterion: "encode, decode, encode of a fully populated value at the version named by the verifier: decode fails, re-encoding fails, the bytes differ or the round trip panics (the same harness passed for this type and version on the pinned tree)"}
	path := filepath.Join(dir, sanitizeFile(r.Ob.Name)+".replay.json")
	data, _ := json.MarshalIndent(rec, "", " ")
	os.WriteFile(path, data, 0o644)
	return path, true
}

func grepRepro(out string) string {
	var keep []string
	lines := strings.Split(out, "\n")
	for i, l := range lines {
		if strings.Contains(l, "VERIF-REPRO") {
			end := i + 6
			if end > len(lines) {
				end = len(lines)
			}
			keep = append(keep, lines[i:end]...)
		}
	}
	return strings.Join(keep, "\n")
}

// uses: the pair's grammar mentions the block type (directly).
func (pr *wirePair) uses(tn string) bool {
	var walk func(items []*wNode) bool
	walk = func(items []*wNode) bool {
		for _, n := range items {
			if n.K == wSub && n.Name == tn {
				return true
			}
			if walk(n.Then) || walk(n.Else) || walk(n.Body) {
				return true
			}
		}
		return false
	}
	return walk(pr.enc.items) || walk(pr.dec.items)
}

// wireReplayPoints: the version representatives of the pair and of the blocks it contains (a guard inside a block
// makes the enclosing message version-dependent too).
func (p *Prog) wireReplayPoints(pr *wirePair, seen map[string]bool) []int64 {
	set := map[int64]bool{}
	var add func(pr *wirePair)
	add = func(pr *wirePair) {
		if seen[pr.Type] {
			return
		}
		seen[pr.Type] = true
		for _, v := range pr.versionPoints() {
			set[v] = true
		}
		var walk func(items []*wNode)
		walk = func(items []*wNode) {
			for _, n := range items {
				if n.K == wSub {
					if sub := p.wirePairMap()[n.Name]; sub != nil {
						add(sub)
					}
				}
				walk(n.Then)
				walk(n.Else)
				walk(n.Body)
			}
		}
		walk(pr.enc.items)
		walk(pr.dec.items)
	}
	add(pr)
	var out []int64
	for v := range set {
		out = append(out, v)
	}
	sort.Slice(out, func(i, j int) bool { return out[i] < out[j] })
	return out
}

// wireRoundTripStandIn (thorough tier only): the round-trip harness run on the current tree for every (type,
// version) case it passed on the pinned tree. A bounded stand-in - four generated values per case - for what the
// relational contract does not decide (the values carried by the tokens); labelled bounded, never counted as proved.
func (p *Prog) wireRoundTripStandIn(prop string, base *baselineFile) (map[string]interface{}, []string) {
	cases := map[string][]int64{}
	for _, k := range base.WireReplay {
		i := strings.Index(k, "/v")
		var v int64
		fmt.Sscanf(k[i+2:], "%d", &v)
		cases[k[:i]] = append(cases[k[:i]], v)
	}
	file := filepath.Join(verifDir, "out", "bounded", "wire_roundtrip_test.go")
	res, out, cmdline := p.wireReplayRun(p.wireReplaySource(cases), file)
	rep := map[string]interface{}{"name": "wire_roundtrip", "file": "generated: " + file, "test": "TestVerifWireReplay",
		"label": "BOUNDED stand-in: not a proof, not counted among the discharged obligations",
		"summary": fmt.Sprintf("encode/decode/encode of 4 generated values for each of %d (type, version) cases that passed on the pinned tree; bound: the generated values (every collection with two elements / empty / first collection empty / optional scalars absent)", len(base.WireReplay)),
		"cmd":     cmdline}
	var fails []string
	if len(res) == 0 {
		fails = append(fails, "bounded harness did not complete: "+strings.ReplaceAll(truncate(out, 1500), "\n", " | "))
	}
	for _, k := range base.WireReplay {
		if res[k] == "fail" {
			detail := ""
			for _, l := range strings.Split(out, "\n") {
				if strings.Contains(l, "VERIF-REPRO "+k[:strings.Index(k, "/v")]+" version "+k[strings.Index(k, "/v")+2:]+":") {
					detail = strings.TrimSpace(l)
					break
				}
			}
			fails = append(fails, k+": "+detail)
		}
	}
	rep["failures_for_this_property"] = len(fails)
	return rep, fails
}
