package main

// Relational (product) verification of the encode/decode pair of a protocol message type (property C09).
//
// Contract of a pair T.encode / T.decode, taken from the property statement: decoding what encode wrote reads, for
// every protocol version, exactly the tokens that were written, in the order they were written, each with the
// primitive that inverts the one that wrote it (coupling invariant of the product program: "the decoder stands where
// the encoder stood, and everything before that position has been read with the dual primitive").
//
// The wire grammar of each function (tokens, nested blocks, loops, version alternatives, data alternatives) is
// extracted from the typed AST of the real code on every run. The obligation wire/<T>/dual is decided as follows:
//   - the version line is split at the constants the two functions compare the version with; that every version
//     guard is constant on every region is an SMT obligation (wire/<T>/regions), so the case split is complete;
//   - within a region both grammars are specialised (guards evaluated at the region's representative) and compared
//     in lockstep; loops are matched by the lockstep loop rule (bodies dual, iteration counts linked to the length
//     token written/read immediately before), nested blocks modularly (same block type, same version argument).
// A function using a construct the extractor does not handle is reported "unknown" (out of reach), never as a
// violation on its own account.

import (
	"fmt"
	"go/ast"
	"go/constant"
	"go/token"
	"go/types"
	"os"
	"os/exec"
	"path/filepath"
	"sort"
	"strconv"
	"strings"
	"time"
)

type wKind int

const (
	wTok wKind = iota
	wSub
	wRep
	wAlt
	wPush
	wPop
	wEnd
	wAbort
	wCont
)

type wNode struct {
	K       wKind
	Name    string // token kind, block type, push kind
	Arg     string // sub: version argument ("version", a constant, or text); tok: source/sink text
	Cond    ast.Expr
	Then    []*wNode
	Else    []*wNode
	Body    []*wNode
	Count   string // rep: what the iteration count is linked to
	Pos     token.Pos
	Version bool // alt: guard over the version only
	Sink    types.Object // decode tok: the variable the token is read into (identifiers only)
	Src     ast.Expr     // encode: the expression written / the block encoded; decode: the lvalue read into / the block decoded
	Wrap    string       // "len" / "elem": the token carries the length / an element of Src
	Range   ast.Expr     // rep: the collection ranged over (encode) / the bound n of i < n (decode)
}

type wFunc struct {
	fi          *FuncInfo
	side        string // "encode" or "decode"
	coder       types.Object
	verParam    types.Object
	recv        types.Object
	items       []*wNode
	unsupported []string
	guards      []ast.Expr // version guards
	consts      map[int64]bool
	usesRecvVer bool
	setsRecvVer bool
	assignsRecvVer bool // decode: recv.Version = version somewhere
	info        *types.Info
	fset        *token.FileSet
	lenSinks    map[types.Object]bool // decode: variables holding a length token
	loopDepth   int
	aliases     map[types.Object]ast.Expr // locals defined once from a version-only expression
	recvVer     bool                      // the receiver's Version field is the protocol version (the decoder takes a version)
	wp          *wPaths
	keepPush    bool // specialise without turning push/pop into tokens (balance check)
	coders      map[types.Object]bool // the coder parameter and the sub-decoders obtained from it (getSubset)
	prog        *Prog
	errBranch   int                   // inside the body of `if err != nil`
	peekVars    map[types.Object]bool // locals holding a looked-ahead (not consumed) value
	depth       int                   // helper inlining depth
}

var tokDual = map[string]string{
	"putInt8": "Int8", "getInt8": "Int8",
	"putInt16": "Int16", "getInt16": "Int16",
	"putInt32": "Int32", "getInt32": "Int32",
	"putInt64": "Int64", "getInt64": "Int64",
	"putVarint": "Varint", "getVarint": "Varint",
	"putUVarint": "UVarint", "getUVarint": "UVarint",
	"putBool": "Bool", "getBool": "Bool",
	"putArrayLength": "ArrayLength", "getArrayLength": "ArrayLength",
	"putCompactArrayLength": "CompactArrayLength", "getCompactArrayLength": "CompactArrayLength",
	"putBytes": "Bytes", "getBytes": "Bytes",
	"putVarintBytes": "VarintBytes", "getVarintBytes": "VarintBytes",
	"putCompactBytes": "CompactBytes", "getCompactBytes": "CompactBytes",
	"putString": "String", "getString": "String",
	"putNullableString": "NullableString", "getNullableString": "NullableString",
	"putCompactString": "CompactString", "getCompactString": "CompactString",
	"putNullableCompactString": "NullableCompactString", "getCompactNullableString": "NullableCompactString",
	"putInt32Array": "Int32Array", "getInt32Array": "Int32Array",
	"putInt64Array": "Int64Array", "getInt64Array": "Int64Array",
	"putCompactInt32Array": "CompactInt32Array", "getCompactInt32Array": "CompactInt32Array",
	"putNullableCompactInt32Array": "NullableCompactInt32Array",
	"putStringArray":               "StringArray", "getStringArray": "StringArray",
	"putEmptyTaggedFieldArray": "EmptyTaggedFieldArray", "getEmptyTaggedFieldArray": "EmptyTaggedFieldArray",
	"putRawBytes": "RawBytes", "getRawBytes": "RawBytes",
}

// wire-level canonical form of a token: a length is the integer that carries it (ArrayLength is an int32 with -1
// for an absent array, a compact length an unsigned varint), a nullable string is a string whose length may be -1,
// and the array primitives are a length followed by the elements.
var tokCanon = map[string]string{
	"ArrayLength": "Int32", "CompactArrayLength": "UVarint",
	// "NullableString": "String", "NullableCompactString": "CompactString",
}

var tokExpand = map[string][2]string{
	"StringArray":               {"Int32", "String"},
	"Int32Array":                {"Int32", "Int32"},
	"Int64Array":                {"Int32", "Int64"},
	"CompactInt32Array":         {"UVarint", "Int32"},
	"NullableCompactInt32Array": {"UVarint", "Int32"},
}

// coder methods without effect on the wire position
var tokNeutral = map[string]bool{"offset": true, "metricRegistry": true, "remaining": true, "peek": true, "peekInt8": true}

func (w *wFunc) unsup(pos token.Pos, format string, a ...interface{}) {
	w.unsupported = append(w.unsupported, fmt.Sprintf("%s: ", w.fset.Position(pos).String()[strings.LastIndex(w.fset.Position(pos).String(), "/")+1:])+fmt.Sprintf(format, a...))
}

func (w *wFunc) isCoder(o types.Object) bool {
	return o != nil && (o == w.coder || w.coders[o])
}

func (w *wFunc) mentionsRecv(n ast.Node) bool {
	found := false
	ast.Inspect(n, func(x ast.Node) bool {
		if id, ok := x.(*ast.Ident); ok && w.recv != nil && w.info.Uses[id] == w.recv {
			found = true
		}
		return !found
	})
	return found
}

// mentionsCoderBeyond: the coder is used other than as the receiver of a call of the given position-neutral method.
func (w *wFunc) mentionsCoderBeyond(n ast.Node, method string) bool {
	found := false
	ast.Inspect(n, func(x ast.Node) bool {
		if call, ok := x.(*ast.CallExpr); ok {
			if sel, ok := call.Fun.(*ast.SelectorExpr); ok && sel.Sel.Name == method && len(call.Args) == 0 {
				if id, ok := sel.X.(*ast.Ident); ok && w.isCoder(w.info.Uses[id]) {
					return false
				}
			}
		}
		if id, ok := x.(*ast.Ident); ok && w.isCoder(w.info.Uses[id]) {
			found = true
		}
		return !found
	})
	return found
}

func (w *wFunc) mentionsCoder(n ast.Node) bool {
	found := false
	if n == nil {
		return false
	}
	ast.Inspect(n, func(x ast.Node) bool {
		if id, ok := x.(*ast.Ident); ok && w.isCoder(w.info.Uses[id]) {
			found = true
		}
		return !found
	})
	return found
}

func (w *wFunc) isVersionExpr(e ast.Expr) bool {
	e = ast.Unparen(e)
	switch x := e.(type) {
	case *ast.Ident:
		return w.verParam != nil && w.info.Uses[x] == w.verParam
	case *ast.SelectorExpr:
		if id, ok := x.X.(*ast.Ident); ok && w.recvVer && w.recv != nil && w.info.Uses[id] == w.recv && x.Sel.Name == "Version" {
			return true
		}
	case *ast.CallExpr:
		// integer conversion of the version; recv.version()
		if len(x.Args) == 1 {
			if tv, ok := w.info.Types[x.Fun]; ok && tv.IsType() {
				if b, ok := tv.Type.Underlying().(*types.Basic); ok && b.Info()&types.IsInteger != 0 {
					return w.isVersionExpr(x.Args[0])
				}
			}
		}
		if len(x.Args) == 0 {
			if sel, ok := x.Fun.(*ast.SelectorExpr); ok && sel.Sel.Name == "version" {
				if id, ok := sel.X.(*ast.Ident); ok && w.recvVer && w.recv != nil && w.info.Uses[id] == w.recv {
					return true
				}
			}
		}
	}
	return false
}

// mentionsVersion / onlyVersion: classification of a guard.
func (w *wFunc) versionUse(e ast.Expr) (mentions, only bool) {
	only = true
	var walk func(e ast.Expr)
	walk = func(e ast.Expr) {
		e = ast.Unparen(e)
		if w.isVersionExpr(e) {
			mentions = true
			return
		}
		switch x := e.(type) {
		case *ast.BinaryExpr:
			walk(x.X)
			walk(x.Y)
		case *ast.UnaryExpr:
			walk(x.X)
		case *ast.BasicLit:
		case *ast.Ident:
			if tv, ok := w.info.Types[x]; ok && tv.Value != nil {
				return
			}
			if a, ok := w.aliases[w.info.Uses[x]]; ok {
				walk(a)
				return
			}
			only = false
		default:
			if tv, ok := w.info.Types[e]; ok && tv.Value != nil {
				return
			}
			only = false
		}
	}
	walk(e)
	return
}

func (w *wFunc) noteGuard(e ast.Expr) {
	w.guards = append(w.guards, e)
	ast.Inspect(e, func(n ast.Node) bool {
		if ex, ok := n.(ast.Expr); ok {
			if tv, ok := w.info.Types[ex]; ok && tv.Value != nil && tv.Value.Kind() == constant.Int {
				if v, ok := constant.Int64Val(tv.Value); ok {
					w.consts[v] = true
				}
			}
			if w.isVersionExpr(ex) {
				if _, isSel := ast.Unparen(ex).(*ast.SelectorExpr); isSel {
					w.usesRecvVer = true
				}
			}
		}
		return true
	})
}

// coderCall: the call is pe.putX(..) / pd.getX() / pe.push / pop / x.encode(pe, ..) / x.decode(pd, ..).
func (w *wFunc) coderCall(call *ast.CallExpr, sinks []ast.Expr) (*wNode, bool) {
	sel, ok := call.Fun.(*ast.SelectorExpr)
	if !ok {
		return nil, false
	}
	if id, ok := sel.X.(*ast.Ident); ok && w.isCoder(w.info.Uses[id]) {
		name := sel.Sel.Name
		if k, ok := tokDual[name]; ok {
			arg := ""
			if w.side == "encode" && len(call.Args) > 0 {
				arg = exprText(w.fset, call.Args[0])
			}
			if w.side == "decode" && len(sinks) > 0 {
				arg = exprText(w.fset, sinks[0])
				if (k == "ArrayLength" || k == "CompactArrayLength" || k == "Int32" || k == "Int16" || k == "UVarint" || k == "Varint" || k == "Int8") && len(sinks) > 0 {
					if sid, ok := sinks[0].(*ast.Ident); ok {
						if o := w.info.ObjectOf(sid); o != nil {
							w.lenSinks[o] = true
						}
					}
				}
			}
			if k == "RawBytes" && w.side == "decode" && len(call.Args) > 0 {
				arg = "n=" + exprText(w.fset, call.Args[0])
			}
			var sink types.Object
			if w.side == "decode" && len(sinks) > 0 {
				if sid, ok := sinks[0].(*ast.Ident); ok {
					sink = w.info.ObjectOf(sid)
				}
			}
			var src ast.Expr
			if w.side == "encode" && len(call.Args) > 0 {
				src = call.Args[0]
			}
			if w.side == "decode" && len(sinks) > 0 {
				src = sinks[0]
			}
			return &wNode{K: wTok, Name: k, Arg: arg, Pos: call.Pos(), Sink: sink, Src: src}, true
		}
		switch name {
		case "push":
			kind := "?"
			if len(call.Args) == 1 {
				kind = namedOf(w.info.TypeOf(call.Args[0]))
				if kind == "" {
					kind = types.TypeString(w.info.TypeOf(call.Args[0]), func(*types.Package) string { return "" })
				}
			}
			return &wNode{K: wPush, Name: kind, Pos: call.Pos()}, true
		case "pop":
			return &wNode{K: wPop, Pos: call.Pos()}, true
		}
		if tokNeutral[name] {
			if (name == "peek" || name == "peekInt8") && len(sinks) > 0 {
				if sid, ok := sinks[0].(*ast.Ident); ok {
					if o := w.info.ObjectOf(sid); o != nil {
						w.peekVars[o] = true
					}
				}
			}
			return nil, true
		}
		if name == "getSubset" && w.side == "decode" && len(sinks) > 0 && len(call.Args) == 1 {
			// sub, err := pd.getSubset(n): the bytes of the frame whose length n was read just before are read
			// through sub; on the wire nothing happens here
			if sid, ok := sinks[0].(*ast.Ident); ok {
				if o := w.info.ObjectOf(sid); o != nil {
					w.coders[o] = true
					return nil, true
				}
			}
		}
		w.unsup(call.Pos(), "coder method %s is not modelled", name)
		return nil, true
	}
	// x.encode(pe, ...) / x.decode(pd, ...)
	if (sel.Sel.Name == "encode" || sel.Sel.Name == "decode") && len(call.Args) >= 1 {
		if id, ok := ast.Unparen(call.Args[0]).(*ast.Ident); ok && w.isCoder(w.info.Uses[id]) {
			if sel.Sel.Name != w.side {
				w.unsup(call.Pos(), "%s called from %s", sel.Sel.Name, w.side)
				return nil, true
			}
			tn := namedOf(w.info.TypeOf(sel.X))
			if tn == "" {
				w.unsup(call.Pos(), "nested block of unnamed type")
				return nil, true
			}
			var args []string
			for _, a := range call.Args[1:] {
				if w.isVersionExpr(a) {
					args = append(args, "version")
					if _, isSel := ast.Unparen(a).(*ast.SelectorExpr); isSel {
						w.usesRecvVer = true
					}
				} else if tv, ok := w.info.Types[a]; ok && tv.Value != nil {
					args = append(args, tv.Value.ExactString())
				} else {
					args = append(args, "expr:"+exprText(w.fset, a))
				}
			}
			return &wNode{K: wSub, Name: tn, Arg: strings.Join(args, ","), Pos: call.Pos(), Src: sel.X}, true
		}
	}
	return nil, false
}

func exprText(fset *token.FileSet, e ast.Expr) string {
	return types.ExprString(e)
}

// isErrCheck: cond is `<err ident> != nil`.
func (w *wFunc) isErrCheck(cond ast.Expr) bool {
	b, ok := ast.Unparen(cond).(*ast.BinaryExpr)
	if !ok || b.Op != token.NEQ {
		return false
	}
	id, ok := ast.Unparen(b.X).(*ast.Ident)
	if !ok {
		return false
	}
	if n, ok := ast.Unparen(b.Y).(*ast.Ident); !ok || n.Name != "nil" {
		return false
	}
	t := w.info.TypeOf(id)
	return t != nil && t.String() == "error"
}

func onlyReturns(b *ast.BlockStmt) bool {
	if b == nil || len(b.List) != 1 {
		return false
	}
	_, ok := b.List[0].(*ast.ReturnStmt)
	return ok
}

// stmts: the wire grammar of a statement list. The result ends with wEnd/wAbort when the list cannot fall through.
func (w *wFunc) stmts(list []ast.Stmt) []*wNode {
	var out []*wNode
	for _, s := range list {
		items, stop := w.stmt(s)
		out = append(out, items...)
		if stop {
			break
		}
	}
	return out
}

func terminated(items []*wNode) bool {
	if len(items) == 0 {
		return false
	}
	l := items[len(items)-1]
	if l.K == wEnd || l.K == wAbort || l.K == wCont {
		return true
	}
	if l.K == wAlt {
		return terminated(l.Then) && terminated(l.Else)
	}
	return false
}

func (w *wFunc) exprItems(e ast.Expr, sinks []ast.Expr) []*wNode {
	if call, ok := ast.Unparen(e).(*ast.CallExpr); ok {
		if n, is := w.coderCall(call, sinks); is {
			if n == nil {
				return nil
			}
			return []*wNode{n}
		}
	}
	if call, ok := ast.Unparen(e).(*ast.CallExpr); ok {
		if items, is := w.helperCall(call, sinks); is {
			return items
		}
	}
	if w.mentionsCoderOtherThanNeutral(e) {
		w.unsup(e.Pos(), "the coder is used in an expression that is not modelled: %s", exprText(w.fset, e))
	}
	return nil
}

func (w *wFunc) isRemaining(e ast.Expr) bool {
	call, ok := ast.Unparen(e).(*ast.CallExpr)
	if !ok {
		return false
	}
	sel, ok := call.Fun.(*ast.SelectorExpr)
	if !ok || sel.Sel.Name != "remaining" {
		return false
	}
	id, ok := sel.X.(*ast.Ident)
	return ok && w.isCoder(w.info.Uses[id])
}

// isErrorConstructor: errors.New, fmt.Errorf and the like (functions of other packages returning an error), and
// conversions to an error type.
func (w *wFunc) isErrorConstructor(call *ast.CallExpr) bool {
	if tv, ok := w.info.Types[call.Fun]; ok && tv.IsType() {
		return true
	}
	if sel, ok := call.Fun.(*ast.SelectorExpr); ok {
		if id, ok := sel.X.(*ast.Ident); ok {
			if _, isPkg := w.info.ObjectOf(id).(*types.PkgName); isPkg {
				return true
			}
		}
	}
	return false
}

// onlyPeeked: the condition compares looked-ahead values with constants.
func (w *wFunc) onlyPeeked(e ast.Expr) bool {
	seen, ok := false, true
	ast.Inspect(e, func(n ast.Node) bool {
		if id, isId := n.(*ast.Ident); isId {
			o := w.info.Uses[id]
			if o == nil {
				return true
			}
			if w.peekVars[o] {
				seen = true
				return true
			}
			if _, isConst := o.(*types.Const); isConst {
				return true
			}
			if _, isNil := o.(*types.Nil); isNil {
				return true
			}
			ok = false
		}
		return true
	})
	return seen && ok
}

// mentionsCoderOtherThanNeutral: the coder occurs other than as the receiver of a position-neutral method.
func (w *wFunc) mentionsCoderOtherThanNeutral(n ast.Node) bool {
	found := false
	ast.Inspect(n, func(x ast.Node) bool {
		if call, ok := x.(*ast.CallExpr); ok {
			if sel, ok := call.Fun.(*ast.SelectorExpr); ok && tokNeutral[sel.Sel.Name] {
				if id, ok := sel.X.(*ast.Ident); ok && w.isCoder(w.info.Uses[id]) {
					for _, a := range call.Args {
						if w.mentionsCoder(a) {
							found = true
						}
					}
					return false
				}
			}
		}
		if id, ok := x.(*ast.Ident); ok && w.isCoder(w.info.Uses[id]) {
			found = true
		}
		return !found
	})
	return found
}

// helperCall: a function or method of the package that is handed the coder (b.encodeRecords(pe), magicValue(pd)):
// its own grammar is spliced in.
func (w *wFunc) helperCall(call *ast.CallExpr, sinks []ast.Expr) ([]*wNode, bool) {
	idx := -1
	for i, a := range call.Args {
		if id, ok := ast.Unparen(a).(*ast.Ident); ok && w.isCoder(w.info.Uses[id]) {
			if idx >= 0 {
				return nil, false
			}
			idx = i
		} else if w.mentionsCoder(a) {
			return nil, false
		}
	}
	if idx < 0 || w.prog == nil || w.depth > 3 {
		return nil, false
	}
	var obj types.Object
	switch f := call.Fun.(type) {
	case *ast.Ident:
		obj = w.info.Uses[f]
	case *ast.SelectorExpr:
		obj = w.info.Uses[f.Sel]
		if w.mentionsCoder(f.X) {
			return nil, false
		}
	}
	fn, ok := obj.(*types.Func)
	if !ok {
		return nil, false
	}
	fi := w.prog.funcByObj[fn]
	if fi == nil || fi.Body == nil || fi.Sig.Params().Len() <= idx {
		return nil, false
	}
	h := &wFunc{fi: fi, side: w.side, info: fi.Pkg.TypesInfo, fset: w.fset, consts: map[int64]bool{}, lenSinks: map[types.Object]bool{},
		aliases: map[types.Object]ast.Expr{}, recvVer: false, coders: map[types.Object]bool{}, prog: w.prog, peekVars: map[types.Object]bool{}, depth: w.depth + 1}
	h.coder = fi.Sig.Params().At(idx)
	if fi.Sig.Recv() != nil {
		h.recv = fi.Sig.Recv()
	}
	items := h.stmts(fi.Body.List)
	for _, u := range h.unsupported {
		w.unsupported = append(w.unsupported, "in helper "+fi.Key+": "+u)
	}
	if len(h.guards) > 0 {
		w.unsup(call.Pos(), "helper %s has version guards", fi.Key)
	}
	// a helper that only looks ahead returns a looked-ahead value
	if len(stripEnd(items)) == 0 && len(sinks) > 0 {
		if sid, ok := sinks[0].(*ast.Ident); ok {
			if o := w.info.ObjectOf(sid); o != nil {
				w.peekVars[o] = true
			}
		}
	}
	// the helper's own returns end the helper, not the caller: only straight-line helpers are spliced
	flat := stripEnd(items)
	for _, n := range flat {
		if n.K == wEnd || n.K == wAlt || n.K == wAbort || n.K == wCont {
			// alternatives inside helpers whose branches all carry no tokens are dropped by stmts already
			w.unsup(call.Pos(), "helper %s is not straight-line", fi.Key)
			return nil, true
		}
	}
	return flat, true
}

func (w *wFunc) stmt(s ast.Stmt) (items []*wNode, stop bool) {
	switch x := s.(type) {
	case nil:
		return nil, false
	case *ast.ExprStmt:
		return w.exprItems(x.X, nil), false
	case *ast.AssignStmt:
		if len(x.Rhs) == 1 {
			items = w.exprItems(x.Rhs[0], x.Lhs)
		} else {
			for _, r := range x.Rhs {
				items = append(items, w.exprItems(r, nil)...)
			}
		}
		// isFlexible := r.Version >= 6
		if x.Tok == token.DEFINE && len(x.Lhs) == 1 && len(x.Rhs) == 1 {
			if id, ok := x.Lhs[0].(*ast.Ident); ok {
				if m, only := w.versionUse(x.Rhs[0]); m && only {
					if o := w.info.Defs[id]; o != nil {
						w.aliases[o] = x.Rhs[0]
						w.noteGuard(x.Rhs[0])
					}
				}
			}
		} else if len(x.Lhs) == 1 {
			if id, ok := x.Lhs[0].(*ast.Ident); ok {
				if o := w.info.Uses[id]; o != nil {
					if _, was := w.aliases[o]; was {
						w.unsup(x.Pos(), "a version alias is reassigned")
					}
				}
			}
		}
		// r.Version = version
		if len(x.Lhs) == 1 && len(x.Rhs) == 1 {
			if sel, ok := x.Lhs[0].(*ast.SelectorExpr); ok && sel.Sel.Name == "Version" {
				if id, ok := sel.X.(*ast.Ident); ok && w.recvVer && w.recv != nil && w.info.Uses[id] == w.recv {
					if w.verParam != nil && w.isVersionExpr(x.Rhs[0]) && !w.mentionsRecv(x.Rhs[0]) {
						w.assignsRecvVer = true
						if !w.usesRecvVer {
							w.setsRecvVer = true
						}
					} else {
						w.unsup(x.Pos(), "the receiver's Version is assigned something other than the version parameter")
					}
				}
			}
		}
		for _, l := range x.Lhs {
			if w.mentionsCoder(l) {
				w.unsup(l.Pos(), "the coder is used on the left of an assignment")
			}
		}
		return items, false
	case *ast.DeclStmt:
		if w.mentionsCoder(x) {
			w.unsup(x.Pos(), "the coder is used in a declaration")
		}
		return nil, false
	case *ast.IncDecStmt, *ast.EmptyStmt:
		return nil, false
	case *ast.BranchStmt:
		if x.Tok == token.CONTINUE && x.Label == nil && w.loopDepth > 0 {
			return []*wNode{{K: wCont, Pos: x.Pos()}}, true
		}
		if x.Tok == token.BREAK && x.Label == nil && w.loopDepth > 0 && w.side == "decode" {
			// the decoder gives up on the rest of the collection (partial trailing data): outside the round trip
			return []*wNode{{K: wAbort, Pos: x.Pos()}}, true
		}
		w.unsup(s.Pos(), "%s is not modelled", x.Tok)
		return nil, false
	case *ast.BlockStmt:
		items = w.stmts(x.List)
		return items, terminated(items)
	case *ast.ReturnStmt:
		for i, r := range x.Results {
			if call, ok := ast.Unparen(r).(*ast.CallExpr); ok {
				if n, is := w.coderCall(call, nil); is {
					if n != nil {
						items = append(items, n)
					}
					return append(items, &wNode{K: wEnd, Pos: x.Pos()}), true
				}
			}
			if w.mentionsCoder(r) {
				w.unsup(r.Pos(), "the coder is used in a return value")
			}
			if i == len(x.Results)-1 {
				switch rv := ast.Unparen(r).(type) {
				case *ast.Ident:
					if rv.Name == "nil" {
						return append(items, &wNode{K: wEnd, Pos: x.Pos()}), true
					}
					if o := w.info.Uses[rv]; o != nil {
						if _, isVar := o.(*types.Var); isVar && o.Parent() != o.Pkg().Scope() {
							if w.errBranch > 0 {
								return append(items, &wNode{K: wAbort, Pos: x.Pos()}), true
							}
							// a local error variable: the result of the last coder call
							return append(items, &wNode{K: wEnd, Pos: x.Pos()}), true
						}
					}
				}
				if call, ok := ast.Unparen(r).(*ast.CallExpr); ok && !w.isErrorConstructor(call) && w.errBranch == 0 {
					// the result of another function of the package (return m.decodeSet()): may well be nil
					return append(items, &wNode{K: wEnd, Pos: x.Pos()}), true
				}
				return append(items, &wNode{K: wAbort, Pos: x.Pos()}), true
			}
		}
		// bare return (named results)
		return append(items, &wNode{K: wEnd, Pos: x.Pos()}), true
	case *ast.IfStmt:
		if x.Init != nil {
			init, _ := w.stmt(x.Init)
			items = append(items, init...)
		}
		if w.mentionsCoderBeyond(x.Cond, "remaining") {
			w.unsup(x.Cond.Pos(), "the coder is used in a condition")
		}
		if w.isErrCheck(x.Cond) && onlyReturns(x.Body) {
			// error propagation; an else branch continues the sequence
			if x.Else != nil {
				e, st := w.stmt(x.Else)
				items = append(items, e...)
				return items, st
			}
			return items, false
		}
		if w.isErrCheck(x.Cond) {
			// if err != nil { ... }: whatever the body does, the path is an error path (a body that returns nil
			// for partial trailing data included); an else branch continues the sequence
			w.errBranch++
			body := w.stmts(x.Body.List)
			w.errBranch--
			if terminated(body) || len(body) == 0 {
				if x.Else != nil {
					e, st := w.stmt(x.Else)
					items = append(items, e...)
					return items, st
				}
				return items, false
			}
		}
		thenI := w.stmts(x.Body.List)
		var elseI []*wNode
		if x.Else != nil {
			elseI, _ = w.stmt(x.Else)
		}
		if len(thenI) == 0 && len(elseI) == 0 {
			return items, false
		}
		cond := x.Cond
		// if err != nil || n == 0 { return err }: the error disjunct is error propagation
		if b, ok := ast.Unparen(cond).(*ast.BinaryExpr); ok && b.Op == token.LOR && onlyReturns(x.Body) {
			if w.isErrCheck(b.X) {
				cond = b.Y
			} else if w.isErrCheck(b.Y) {
				cond = b.X
			}
		}
		alt := &wNode{K: wAlt, Cond: cond, Then: thenI, Else: elseI, Pos: x.Pos()}
		if w.onlyPeeked(cond) {
			// a decision on looked-ahead bytes that ends the decoding: the decoder stops reading (foreign or
			// trailing data), outside the round trip
			if len(thenI) == 1 && thenI[0].K == wEnd {
				thenI[0] = &wNode{K: wAbort, Pos: thenI[0].Pos}
			}
			if len(elseI) == 1 && elseI[0].K == wEnd {
				elseI[0] = &wNode{K: wAbort, Pos: elseI[0].Pos}
			}
		}
		if m, _ := w.versionUse(cond); m {
			alt.Version = true
			w.noteGuard(cond)
		}
		items = append(items, alt)
		return items, terminated([]*wNode{alt})
	case *ast.SwitchStmt:
		if x.Init != nil {
			init, _ := w.stmt(x.Init)
			items = append(items, init...)
		}
		if x.Tag != nil {
			if t := w.info.TypeOf(x.Tag); t != nil && t.String() == "error" && !w.mentionsCoder(x.Body) {
				// switch err { case nil: ...; default: return err }: only the nil case continues
				for _, c := range x.Body.List {
					cc := c.(*ast.CaseClause)
					for _, v := range cc.List {
						if id, ok := ast.Unparen(v).(*ast.Ident); ok && id.Name == "nil" {
							body := w.stmts(cc.Body)
							return append(items, body...), terminated(body)
						}
					}
				}
				return items, false
			}
		}
		if !w.mentionsCoder(x.Body) {
			// no wire effect; a switch all of whose clauses return an error ends the grammar only if there is a default
			hasTok := false
			ast.Inspect(x.Body, func(n ast.Node) bool {
				if _, ok := n.(*ast.ReturnStmt); ok {
					hasTok = true
				}
				return true
			})
			if hasTok {
				w.unsup(x.Pos(), "switch with return statements")
			}
			return items, false
		}
		// switch over the version: a chain of version alternatives
		var chain *wNode
		var last *wNode
		var deflt []*wNode
		for _, c := range x.Body.List {
			cc := c.(*ast.CaseClause)
			body := w.stmts(cc.Body)
			if cc.List == nil {
				deflt = body
				continue
			}
			var cond ast.Expr
			for _, v := range cc.List {
				var one ast.Expr
				if x.Tag != nil {
					one = &ast.BinaryExpr{X: x.Tag, Op: token.EQL, Y: v}
				} else {
					one = v
				}
				if cond == nil {
					cond = one
				} else {
					cond = &ast.BinaryExpr{X: cond, Op: token.LOR, Y: one}
				}
			}
			alt := &wNode{K: wAlt, Cond: cond, Then: body, Pos: cc.Pos()}
			if m, _ := w.versionUse(cond); m {
				alt.Version = true
				w.noteGuard(cond)
			}
			if chain == nil {
				chain = alt
			} else {
				last.Else = []*wNode{alt}
			}
			last = alt
		}
		if chain == nil {
			return append(items, deflt...), terminated(deflt)
		}
		last.Else = deflt
		items = append(items, chain)
		return items, terminated([]*wNode{chain})
	case *ast.ForStmt:
		if x.Init != nil && w.mentionsCoder(x.Init) || x.Cond != nil && w.mentionsCoderOtherThanNeutral(x.Cond) || x.Post != nil && w.mentionsCoder(x.Post) {
			w.unsup(x.Pos(), "the coder is used in a loop header")
		}
		w.loopDepth++
		body := w.stmts(x.Body.List)
		w.loopDepth--
		if len(body) == 0 {
			return nil, false
		}
		count := ""
		if b, ok := x.Cond.(*ast.BinaryExpr); ok && b.Op == token.LSS {
			count = exprText(w.fset, b.Y)
		} else if b, ok := x.Cond.(*ast.BinaryExpr); ok && b.Op == token.GTR && w.isRemaining(b.X) {
			count = "until the frame is read"
		} else {
			w.unsup(x.Pos(), "loop without an upper bound of the form i < n")
		}
		var bound ast.Expr
		if b, ok := x.Cond.(*ast.BinaryExpr); ok && b.Op == token.LSS {
			bound = b.Y
		}
		return []*wNode{{K: wRep, Body: body, Count: count, Pos: x.Pos(), Range: bound}}, false
	case *ast.RangeStmt:
		if w.mentionsCoder(x.X) {
			w.unsup(x.Pos(), "the coder is used in a range expression")
		}
		w.loopDepth++
		body := w.stmts(x.Body.List)
		w.loopDepth--
		if len(body) == 0 {
			return nil, false
		}
		return []*wNode{{K: wRep, Body: body, Count: "range " + exprText(w.fset, x.X), Pos: x.Pos(), Range: x.X}}, false
	case *ast.DeferStmt:
		if w.mentionsCoder(x.Call) {
			w.unsup(x.Pos(), "deferred coder call")
		}
		return nil, false
	default:
		if w.mentionsCoder(s) {
			w.unsup(s.Pos(), "statement %T uses the coder", s)
		}
		return nil, false
	}
}

func (p *Prog) wireExtract(fi *FuncInfo, side string, recvVer bool) *wFunc {
	w := &wFunc{fi: fi, side: side, info: fi.Pkg.TypesInfo, fset: p.fset, consts: map[int64]bool{}, lenSinks: map[types.Object]bool{},
		aliases: map[types.Object]ast.Expr{}, recvVer: recvVer, coders: map[types.Object]bool{}, prog: p, peekVars: map[types.Object]bool{}}
	params := fi.Sig.Params()
	if params.Len() == 0 {
		w.unsupported = append(w.unsupported, "no coder parameter")
		return w
	}
	w.coder = params.At(0)
	for i := 1; i < params.Len(); i++ {
		if params.At(i).Name() == "version" {
			w.verParam = params.At(i)
		}
		if n := namedOf(params.At(i).Type()); n == "packetEncoder" || n == "packetDecoder" {
			w.unsupported = append(w.unsupported, "more than one coder parameter")
		}
	}
	if fi.Sig.Recv() != nil {
		w.recv = fi.Sig.Recv()
	}
	w.items = w.stmts(fi.Body.List)
	if side == "decode" && w.usesRecvVer && !w.setsRecvVer {
		w.unsupported = append(w.unsupported, "decode tests the receiver's Version field without first setting it to the version parameter")
	}
	return w
}

// ---- evaluation of version guards

type tri int

const (
	triFalse tri = iota
	triTrue
	triData
)

// evalGuard evaluates a guard at a concrete version; sub-expressions over data are triData.
func (w *wFunc) evalGuard(e ast.Expr, ver int64) tri {
	e = ast.Unparen(e)
	switch x := e.(type) {
	case *ast.Ident:
		if a, ok := w.aliases[w.info.Uses[x]]; ok {
			return w.evalGuard(a, ver)
		}
	case *ast.BinaryExpr:
		switch x.Op {
		case token.LAND:
			a, b := w.evalGuard(x.X, ver), w.evalGuard(x.Y, ver)
			if a == triFalse || b == triFalse {
				return triFalse
			}
			if a == triTrue && b == triTrue {
				return triTrue
			}
			return triData
		case token.LOR:
			a, b := w.evalGuard(x.X, ver), w.evalGuard(x.Y, ver)
			if a == triTrue || b == triTrue {
				return triTrue
			}
			if a == triFalse && b == triFalse {
				return triFalse
			}
			return triData
		case token.EQL, token.NEQ, token.LSS, token.LEQ, token.GTR, token.GEQ:
			a, okA := w.evalInt(x.X, ver)
			b, okB := w.evalInt(x.Y, ver)
			if !okA || !okB {
				return triData
			}
			var r bool
			switch x.Op {
			case token.EQL:
				r = a == b
			case token.NEQ:
				r = a != b
			case token.LSS:
				r = a < b
			case token.LEQ:
				r = a <= b
			case token.GTR:
				r = a > b
			case token.GEQ:
				r = a >= b
			}
			if r {
				return triTrue
			}
			return triFalse
		}
	case *ast.UnaryExpr:
		if x.Op == token.NOT {
			switch w.evalGuard(x.X, ver) {
			case triTrue:
				return triFalse
			case triFalse:
				return triTrue
			}
			return triData
		}
	}
	return triData
}

func (w *wFunc) evalInt(e ast.Expr, ver int64) (int64, bool) {
	e = ast.Unparen(e)
	if w.isVersionExpr(e) {
		return ver, true
	}
	if tv, ok := w.info.Types[e]; ok && tv.Value != nil && tv.Value.Kind() == constant.Int {
		return constant.Int64Val(tv.Value)
	}
	return 0, false
}

// guardSMT: the guard as an SMT term over the integer v (data atoms become fresh booleans shared by both points).
func (w *wFunc) guardSMT(e ast.Expr, v string, atoms map[string]string) string {
	e = ast.Unparen(e)
	switch x := e.(type) {
	case *ast.Ident:
		if a, ok := w.aliases[w.info.Uses[x]]; ok {
			return w.guardSMT(a, v, atoms)
		}
	case *ast.BinaryExpr:
		switch x.Op {
		case token.LAND:
			return "(and " + w.guardSMT(x.X, v, atoms) + " " + w.guardSMT(x.Y, v, atoms) + ")"
		case token.LOR:
			return "(or " + w.guardSMT(x.X, v, atoms) + " " + w.guardSMT(x.Y, v, atoms) + ")"
		case token.EQL, token.NEQ, token.LSS, token.LEQ, token.GTR, token.GEQ:
			a, okA := w.intSMT(x.X, v)
			b, okB := w.intSMT(x.Y, v)
			if okA && okB {
				op := map[token.Token]string{token.EQL: "=", token.LSS: "<", token.LEQ: "<=", token.GTR: ">", token.GEQ: ">="}[x.Op]
				if x.Op == token.NEQ {
					return "(not (= " + a + " " + b + "))"
				}
				return "(" + op + " " + a + " " + b + ")"
			}
		}
	case *ast.UnaryExpr:
		if x.Op == token.NOT {
			return "(not " + w.guardSMT(x.X, v, atoms) + ")"
		}
	}
	key := exprText(w.fset, e)
	if m, _ := w.versionUse(e); m {
		// a version-dependent atom the evaluator does not understand: make it differ between the two points
		key = key + "@" + v
	}
	if a, ok := atoms[key]; ok {
		return a
	}
	a := fmt.Sprintf("atom%d", len(atoms))
	atoms[key] = a
	return a
}

func (w *wFunc) intSMT(e ast.Expr, v string) (string, bool) {
	e = ast.Unparen(e)
	if w.isVersionExpr(e) {
		return v, true
	}
	if tv, ok := w.info.Types[e]; ok && tv.Value != nil && tv.Value.Kind() == constant.Int {
		if n, ok := constant.Int64Val(tv.Value); ok {
			if n < 0 {
				return "(- " + strconv.FormatInt(-n, 10) + ")", true
			}
			return strconv.FormatInt(n, 10), true
		}
	}
	return "", false
}

// ---- specialisation and normal form

// specialise: version guards evaluated at ver; the continuation is pushed into alternatives so that every path is
// a plain sequence; aborting paths (encode/decode fails: outside the round trip) are cut.
func (w *wFunc) specialise(items []*wNode, ver int64) []*wNode {
	return w.spec(items, nil, ver)
}

// inlined: nested blocks replaced by their own grammar at the version they are called with (blocks out of reach
// stay opaque).
func (w *wFunc) inlined(items []*wNode, ver int64, pairs map[string]*wirePair, depth int) []*wNode {
	var out []*wNode
	for _, n := range items {
		switch n.K {
		case wSub:
			sub := pairs[n.Name]
			if sub == nil || depth > 6 || len(sub.enc.unsupported)+len(sub.dec.unsupported) > 0 {
				out = append(out, n)
				continue
			}
			f := sub.enc
			if w.side == "decode" {
				f = sub.dec
			}
			sv := ver
			known := true
			for _, a := range strings.Split(n.Arg, ",") {
				if a == "" || a == "version" {
					continue
				}
				if c, err := strconv.ParseInt(a, 10, 64); err == nil {
					sv = c
				} else {
					known = false
				}
			}
			if n.Arg == "" && (f.verParam != nil || len(f.guards) > 0) {
				// the block reads a version of its own
				known = false
			}
			if !known {
				out = append(out, n)
				continue
			}
			body := f.specialise(f.items, sv)
			if isAbort(body) || hasAlt(body) {
				// alternatives of a block carry the block's own continuation, not the caller's: keep it opaque
				out = append(out, n)
				continue
			}
			out = append(out, f.inlined(stripEnd(body), sv, pairs, depth+1)...)
		case wRep:
			out = append(out, &wNode{K: wRep, Body: w.inlined(n.Body, ver, pairs, depth), Count: n.Count, Pos: n.Pos, Range: n.Range})
		case wAlt:
			t, e := w.inlined(n.Then, ver, pairs, depth), w.inlined(n.Else, ver, pairs, depth)
			if wEqual(t, e) {
				out = append(out, t...)
				return out
			}
			out = append(out, &wNode{K: wAlt, Cond: n.Cond, Then: t, Else: e, Pos: n.Pos})
		default:
			out = append(out, n)
		}
	}
	return out
}

// wEnv: what is known about the decoder's length variables on the current path: the kind of the token a variable
// was last read with (a compact array length is never negative: contract of getCompactArrayLength, discharged for
// the real decoder).
type wEnv map[types.Object]string

func (e wEnv) with(o types.Object, kind string) wEnv {
	n := wEnv{}
	for k, v := range e {
		n[k] = v
	}
	if kind == "" {
		delete(n, o)
	} else {
		n[o] = kind
	}
	return n
}

func (w *wFunc) spec(items []*wNode, cont []*wNode, ver int64) []*wNode {
	return w.specK(items, wEnv{}, ver, func(wEnv) []*wNode { return cont })
}

func sinksOf(items []*wNode, into map[types.Object]bool) {
	for _, n := range items {
		if n.Sink != nil {
			into[n.Sink] = true
		}
		sinksOf(n.Then, into)
		sinksOf(n.Else, into)
		sinksOf(n.Body, into)
	}
}

func (w *wFunc) specK(items []*wNode, env wEnv, ver int64, k func(wEnv) []*wNode) []*wNode {
	if len(items) == 0 {
		return k(env)
	}
	n, rest := items[0], items[1:]
	next := func(e wEnv) []*wNode { return w.specK(rest, e, ver, k) }
	switch n.K {
	case wEnd:
		return []*wNode{{K: wEnd, Pos: n.Pos}}
	case wAbort:
		return []*wNode{{K: wAbort, Pos: n.Pos}}
	case wAlt:
		t := w.evalCond(n.Cond, ver, env)
		switch t {
		case triTrue:
			return w.specK(n.Then, env, ver, next)
		case triFalse:
			return w.specK(n.Else, env, ver, next)
		}
		thenS := w.specK(n.Then, env, ver, next)
		elseS := w.specK(n.Else, env, ver, next)
		if isAbort(thenS) {
			return elseS
		}
		if isAbort(elseS) {
			return thenS
		}
		if wEqual(thenS, elseS) {
			return thenS
		}
		// (A X | A Y) = A (X | Y)
		var prefix []*wNode
		for len(thenS) > 0 && len(elseS) > 0 && (thenS[0].K == wTok || thenS[0].K == wSub || thenS[0].K == wPush || thenS[0].K == wPop) && wEqual(thenS[:1], elseS[:1]) {
			prefix = append(prefix, thenS[0])
			thenS, elseS = thenS[1:], elseS[1:]
		}
		if wEqual(thenS, elseS) {
			return append(prefix, thenS...)
		}
		return append(prefix, &wNode{K: wAlt, Cond: n.Cond, Then: thenS, Else: elseS, Pos: n.Pos})
	case wRep:
		// variables read inside the body are unknown inside and after the loop
		assigned := map[types.Object]bool{}
		sinksOf(n.Body, assigned)
		inner := env
		for o := range assigned {
			inner = inner.with(o, "")
		}
		body := w.specK(n.Body, inner, ver, func(wEnv) []*wNode { return nil })
		tail := next(inner)
		if len(body) == 0 || isAbort(body) {
			return tail
		}
		return append([]*wNode{{K: wRep, Body: body, Count: n.Count, Pos: n.Pos, Range: n.Range}}, tail...)
	case wCont:
		return nil
	case wPush:
		if w.keepPush {
			return append([]*wNode{n}, next(env)...)
		}
		// on the wire a push field is the space it reserves (back-patched at the pop, checked at the decoder's pop)
		res := map[string]string{"lengthField": "Int32", "crc32Field": "Int32", "varintLengthField": "Varint"}[n.Name]
		if res == "" {
			return append([]*wNode{n}, next(env)...)
		}
		return append([]*wNode{{K: wTok, Name: res, Arg: "push:" + n.Name, Pos: n.Pos}}, next(env)...)
	case wPop:
		if w.keepPush {
			return append([]*wNode{n}, next(env)...)
		}
		return next(env)
	case wTok:
		e2 := env
		if n.Sink != nil {
			e2 = env.with(n.Sink, n.Name)
		}
		tail := next(e2)
		if ex, ok := tokExpand[n.Name]; ok {
			return append([]*wNode{{K: wTok, Name: ex[0], Arg: n.Arg, Pos: n.Pos, Src: n.Src, Wrap: "len"}, {K: wRep, Body: []*wNode{{K: wTok, Name: ex[1], Pos: n.Pos, Src: n.Src, Wrap: "elem"}}, Count: "elements of " + n.Arg, Pos: n.Pos}}, tail...)
		}
		if c, ok := tokCanon[n.Name]; ok {
			return append([]*wNode{{K: wTok, Name: c, Arg: n.Arg, Pos: n.Pos, Src: n.Src, Wrap: n.Wrap}}, tail...)
		}
		return append([]*wNode{n}, tail...)
	default:
		tail := next(env)
		return append([]*wNode{n}, tail...)
	}
}

// evalCond: three-valued evaluation of a guard at a concrete version, with the path's knowledge about length
// variables; anything else over data is triData.
func (w *wFunc) evalCond(e ast.Expr, ver int64, env wEnv) tri {
	e = ast.Unparen(e)
	switch x := e.(type) {
	case *ast.Ident:
		if a, ok := w.aliases[w.info.Uses[x]]; ok {
			return w.evalCond(a, ver, env)
		}
	case *ast.BinaryExpr:
		switch x.Op {
		case token.LAND:
			a, b := w.evalCond(x.X, ver, env), w.evalCond(x.Y, ver, env)
			if a == triFalse || b == triFalse {
				return triFalse
			}
			if a == triTrue && b == triTrue {
				return triTrue
			}
			return triData
		case token.LOR:
			a, b := w.evalCond(x.X, ver, env), w.evalCond(x.Y, ver, env)
			if a == triTrue || b == triTrue {
				return triTrue
			}
			if a == triFalse && b == triFalse {
				return triFalse
			}
			return triData
		case token.EQL, token.NEQ, token.LSS, token.LEQ, token.GTR, token.GEQ:
			a, okA := w.evalInt(x.X, ver)
			b, okB := w.evalInt(x.Y, ver)
			if okA && okB {
				var r bool
				switch x.Op {
				case token.EQL:
					r = a == b
				case token.NEQ:
					r = a != b
				case token.LSS:
					r = a < b
				case token.LEQ:
					r = a <= b
				case token.GTR:
					r = a > b
				case token.GEQ:
					r = a >= b
				}
				if r {
					return triTrue
				}
				return triFalse
			}
			// n OP c for a variable known to be non-negative
			if id, ok := ast.Unparen(x.X).(*ast.Ident); ok && okB && !okA {
				if o := w.info.Uses[id]; o != nil && env[o] == "CompactArrayLength" {
					switch x.Op {
					case token.LSS:
						if b <= 0 {
							return triFalse
						}
					case token.LEQ, token.EQL:
						if b < 0 {
							return triFalse
						}
					case token.GEQ:
						if b <= 0 {
							return triTrue
						}
					case token.GTR, token.NEQ:
						if b < 0 {
							return triTrue
						}
					}
				}
			}
			return triData
		}
	case *ast.UnaryExpr:
		if x.Op == token.NOT {
			switch w.evalCond(x.X, ver, env) {
			case triTrue:
				return triFalse
			case triFalse:
				return triTrue
			}
			return triData
		}
	}
	return triData
}

func hasAlt(items []*wNode) bool {
	for _, n := range items {
		if n.K == wAlt || hasAlt(n.Body) {
			return true
		}
	}
	return false
}

func isAbort(items []*wNode) bool {
	return len(items) > 0 && items[0].K == wAbort
}

func stripEnd(items []*wNode) []*wNode {
	if len(items) > 0 && items[len(items)-1].K == wEnd {
		return items[:len(items)-1]
	}
	return items
}

func wEqual(a, b []*wNode) bool {
	a, b = stripEnd(a), stripEnd(b)
	if len(a) != len(b) {
		return false
	}
	for i := range a {
		x, y := a[i], b[i]
		if x.K != y.K || x.Name != y.Name {
			return false
		}
		switch x.K {
		case wSub:
			if x.Arg != y.Arg && x.Arg != "" && y.Arg != "" {
				return false
			}
		case wRep:
			if !wEqual(x.Body, y.Body) {
				return false
			}
		case wAlt:
			if !(wEqual(x.Then, y.Then) && wEqual(x.Else, y.Else)) {
				return false
			}
		}
	}
	return true
}

func wString(items []*wNode) string {
	var sb strings.Builder
	for i, n := range items {
		if i > 0 {
			sb.WriteString(" ")
		}
		switch n.K {
		case wTok:
			sb.WriteString(n.Name)
		case wSub:
			sb.WriteString("<" + n.Name + "(" + n.Arg + ")>")
		case wRep:
			sb.WriteString("{" + wString(n.Body) + "}*")
		case wAlt:
			sb.WriteString("(" + wString(n.Then) + " | " + wString(n.Else) + ")")
		case wPush:
			sb.WriteString("push:" + n.Name)
		case wPop:
			sb.WriteString("pop")
		case wEnd:
			sb.WriteString("$")
		case wAbort:
			sb.WriteString("!")
		case wCont:
			sb.WriteString("continue")
		}
	}
	return sb.String()
}

// ---- lockstep comparison

type wirePair struct {
	Type     string
	enc, dec *wFunc
	// field correspondence collected by the last comparison
	fieldsOn      bool
	fieldCompared int
	fieldSkipped  int
	fieldIssues   []string
}

type wireMismatch struct {
	version int64
	msg     string
}

// tokens that differ only in how an absent value is written are dual for present values; the pair is reported
var tokCompat = map[string]string{}

func (p *Prog) wireCompare(pr *wirePair, e, d []*wNode, ver int64, path string) (bool, string) {
	e, d = stripEnd(e), stripEnd(d)
	i, j := 0, 0
	for i < len(e) && j < len(d) {
		x, y := e[i], d[j]
		where := fmt.Sprintf("%s[%d]", path, i)
		// a decoder alternative guarding a loop on its count (if n > 0 { for ... }) is the loop
		if y.K == wAlt && x.K != wAlt {
			if alt := pickRepBranch(y); alt != nil {
				nd := append(append([]*wNode{}, d[:j]...), alt...)
				return p.wireCompare(pr, e[i:], nd[j:], ver, where)
			}
		}
		if x.K == wAlt && y.K != wAlt {
			if alt := pickRepBranch(x); alt != nil {
				return p.wireCompare(pr, alt, d[j:], ver, where)
			}
		}
		if x.K != y.K {
			return false, fmt.Sprintf("%s: encode has %s where decode has %s (encode %s, decode %s)", where, wString([]*wNode{x}), wString([]*wNode{y}), p.posShort(x.Pos), p.posShort(y.Pos))
		}
		switch x.K {
		case wTok:
			if x.Name != y.Name && !pr.nullableReadAsPlain(x, y) {
				return false, fmt.Sprintf("%s: encode writes %s (%s) where decode reads %s (%s)", where, x.Name, p.posShort(x.Pos), y.Name, p.posShort(y.Pos))
			}
			pr.fieldPair(p, x, y, where)
		case wPush:
			if x.Name != y.Name {
				return false, fmt.Sprintf("%s: encode pushes %s where decode pushes %s", where, x.Name, y.Name)
			}
		case wPop:
		case wSub:
			if x.Name != y.Name {
				return false, fmt.Sprintf("%s: encode writes a %s block where decode reads a %s block (%s, %s)", where, x.Name, y.Name, p.posShort(x.Pos), p.posShort(y.Pos))
			}
			pr.fieldPair(p, x, y, where)
			if x.Arg != y.Arg && x.Arg != "" && y.Arg != "" {
				return false, fmt.Sprintf("%s: block %s is encoded with arguments (%s) and decoded with (%s) (%s, %s)", where, x.Name, x.Arg, y.Arg, p.posShort(x.Pos), p.posShort(y.Pos))
			}
		case wRep:
			if i > 0 && j > 0 {
				pr.countLink(p, e[i-1], x, d[j-1], y, where)
			}
			if ok, msg := p.wireCompare(pr, x.Body, y.Body, ver, where+".loop"); !ok {
				return false, msg
			}
		case wAlt:
			ok1, m1 := p.wireCompare(pr, x.Then, y.Then, ver, where+".then")
			ok2, m2 := p.wireCompare(pr, x.Else, y.Else, ver, where+".else")
			if !(ok1 && ok2) {
				ok3, _ := p.wireCompare(pr, x.Then, y.Else, ver, where+".then/else")
				ok4, _ := p.wireCompare(pr, x.Else, y.Then, ver, where+".else/then")
				if !(ok3 && ok4) {
					if !ok1 {
						return false, m1
					}
					return false, m2
				}
			}
			// alternatives carry their continuation
			return true, ""
		}
		i++
		j++
	}
	if i < len(e) {
		return false, fmt.Sprintf("%s[%d]: encode goes on with %s (%s) where decode is finished", path, i, wString(e[i:]), p.posShort(e[i].Pos))
	}
	if j < len(d) {
		return false, fmt.Sprintf("%s[%d]: decode goes on with %s (%s) where encode is finished", path, j, wString(d[j:]), p.posShort(d[j].Pos))
	}
	return true, ""
}

// nullableReadAsPlain: a nullable string may be read as a plain string (the absent string reads as "") when the
// decoder restores the absent value: the temporary is stored through its address only under `tmp != ""`.
func (pr *wirePair) nullableReadAsPlain(x, y *wNode) bool {
	if !(x.Name == "NullableString" && y.Name == "String" || x.Name == "NullableCompactString" && y.Name == "CompactString") || y.Sink == nil {
		return false
	}
	w := pr.dec
	stores, guarded := 0, 0
	var stack []ast.Node
	ast.Inspect(w.fi.Body, func(n ast.Node) bool {
		if n == nil {
			stack = stack[:len(stack)-1]
			return true
		}
		stack = append(stack, n)
		as, ok := n.(*ast.AssignStmt)
		if !ok {
			return true
		}
		for _, r := range as.Rhs {
			u, ok := ast.Unparen(r).(*ast.UnaryExpr)
			if !ok || u.Op != token.AND {
				continue
			}
			id, ok := ast.Unparen(u.X).(*ast.Ident)
			if !ok || w.info.ObjectOf(id) != y.Sink {
				continue
			}
			stores++
			for k := len(stack) - 2; k >= 0; k-- {
				ifs, ok := stack[k].(*ast.IfStmt)
				if !ok {
					continue
				}
				if b, ok := ast.Unparen(ifs.Cond).(*ast.BinaryExpr); ok && b.Op == token.NEQ {
					if cid, ok := ast.Unparen(b.X).(*ast.Ident); ok && w.info.ObjectOf(cid) == y.Sink {
						if lit, ok := ast.Unparen(b.Y).(*ast.BasicLit); ok && lit.Value == `""` {
							// the store must be in the then-branch
							if k+1 < len(stack) && stack[k+1] == ast.Node(ifs.Body) {
								guarded++
							}
						}
					}
				}
				break
			}
		}
		return true
	})
	return stores > 0 && stores == guarded
}

// unbalanced: a path of the grammar on which a pushed length/CRC field is not popped before the function ends
// successfully (or a pop without a push). depth is the number of fields open on entry.
func unbalanced(items []*wNode, depth int, p *Prog) string {
	for i, n := range items {
		switch n.K {
		case wPush:
			depth++
		case wPop:
			depth--
			if depth < 0 {
				return "pop without a matching push at " + p.posShort(n.Pos)
			}
		case wAbort:
			return ""
		case wEnd:
			if depth != 0 {
				return fmt.Sprintf("the function ends at %s with %d pushed field(s) not popped, so their length/CRC is neither written nor checked", p.posShort(n.Pos), depth)
			}
			return ""
		case wAlt:
			// alternatives carry their continuation
			if m := unbalanced(n.Then, depth, p); m != "" {
				return m
			}
			return unbalanced(n.Else, depth, p)
		case wRep:
			if m := unbalanced(append(append([]*wNode{}, n.Body...), &wNode{K: wEnd, Pos: n.Pos}), 0, p); m != "" {
				return "in the loop at " + p.posShort(n.Pos) + ": " + m
			}
		}
		_ = i
	}
	if depth != 0 {
		return fmt.Sprintf("the function ends with %d pushed field(s) not popped", depth)
	}
	return ""
}

// stripEmptyEncodings: an encoder path that writes nothing at all (the value is empty: nothing is encoded and
// nothing is there to decode) is not part of the round trip: leading alternatives lose their bare-end branch.
func stripEmptyEncodings(e []*wNode) []*wNode {
	for len(e) > 0 && e[0].K == wAlt {
		t, f := e[0].Then, e[0].Else
		bare := func(b []*wNode) bool { return len(stripEnd(b)) == 0 }
		switch {
		case bare(t) && !bare(f):
			e = f
		case bare(f) && !bare(t):
			e = t
		default:
			nt, nf := stripEmptyEncodings(t), stripEmptyEncodings(f)
			if wEqual(nt, nf) {
				return nt
			}
			return []*wNode{{K: wAlt, Cond: e[0].Cond, Then: nt, Else: nf, Pos: e[0].Pos}}
		}
	}
	return e
}

// pickRepBranch: for an alternative whose branches differ only by loops (one has a loop where the other has
// nothing) and whose guard compares a count with zero, the branch with the loops.
func pickRepBranch(alt *wNode) []*wNode {
	if !isZeroTest(alt.Cond) {
		return nil
	}
	if wEqual(dropReps(alt.Then), dropReps(alt.Else)) {
		if countReps(alt.Then) >= countReps(alt.Else) {
			return alt.Then
		}
		return alt.Else
	}
	return nil
}

func isZeroTest(c ast.Expr) bool {
	b, ok := ast.Unparen(c).(*ast.BinaryExpr)
	if !ok {
		return false
	}
	if b.Op == token.LAND || b.Op == token.LOR {
		// combinations of count tests, possibly with version tests
		l, r := isZeroTest(b.X), isZeroTest(b.Y)
		return (l || isVersionOnlyText(b.X)) && (r || isVersionOnlyText(b.Y)) && (l || r)
	}
	switch b.Op {
	case token.GTR, token.NEQ, token.EQL, token.LEQ, token.LSS, token.GEQ:
	default:
		return false
	}
	y := ast.Unparen(b.Y)
	if u, ok := y.(*ast.UnaryExpr); ok && u.Op == token.SUB {
		y = ast.Unparen(u.X)
	}
	lit, ok := y.(*ast.BasicLit)
	if !ok || (lit.Value != "0" && lit.Value != "1") {
		return false
	}
	switch l := ast.Unparen(b.X).(type) {
	case *ast.Ident:
		return true
	case *ast.CallExpr:
		if id, ok := l.Fun.(*ast.Ident); ok && id.Name == "len" {
			return true
		}
	}
	return false
}

// isVersionOnlyText: a comparison whose left side is the version (syntactically: `version` or `x.Version`).
func isVersionOnlyText(e ast.Expr) bool {
	b, ok := ast.Unparen(e).(*ast.BinaryExpr)
	if !ok {
		return false
	}
	switch l := ast.Unparen(b.X).(type) {
	case *ast.Ident:
		return l.Name == "version"
	case *ast.SelectorExpr:
		return l.Sel.Name == "Version"
	}
	return false
}

func dropReps(items []*wNode) []*wNode {
	var out []*wNode
	for _, n := range stripEnd(items) {
		if n.K != wRep {
			out = append(out, n)
		}
	}
	return out
}

func countReps(items []*wNode) int {
	c := 0
	for _, n := range items {
		if n.K == wRep {
			c++
		}
	}
	return c
}

func (p *Prog) posShort(pos token.Pos) string {
	if !pos.IsValid() {
		return "?"
	}
	ps := p.fset.Position(pos)
	f := ps.Filename
	if i := strings.LastIndex(f, "/"); i >= 0 {
		f = f[i+1:]
	}
	return fmt.Sprintf("%s:%d", f, ps.Line)
}

// wirePairs: the named types of package sarama with both an encode(packetEncoder, ...) and a
// decode(packetDecoder, ...) method.
func (p *Prog) wirePairMap() map[string]*wirePair {
	if p.wireCache == nil {
		p.wireCache = map[string]*wirePair{}
		for _, pr := range p.wirePairs() {
			p.wireCache[pr.Type] = pr
		}
	}
	return p.wireCache
}

func (p *Prog) wirePairs() []*wirePair {
	var out []*wirePair
	for key, fi := range p.funcs {
		if !strings.HasSuffix(key, ".encode") || strings.HasPrefix(key, "mocks.") || fi.Body == nil || fi.Sig == nil || fi.Sig.Recv() == nil {
			continue
		}
		tn := strings.TrimSuffix(key, ".encode")
		di := p.funcs[tn+".decode"]
		if di == nil || di.Body == nil || di.Sig.Recv() == nil {
			continue
		}
		if fi.Sig.Params().Len() == 0 || namedOf(fi.Sig.Params().At(0).Type()) != "packetEncoder" {
			continue
		}
		if di.Sig.Params().Len() == 0 || namedOf(di.Sig.Params().At(0).Type()) != "packetDecoder" {
			continue
		}
		recvVer := false
		for i := 1; i < di.Sig.Params().Len(); i++ {
			if di.Sig.Params().At(i).Name() == "version" {
				recvVer = true
			}
		}
		out = append(out, &wirePair{Type: tn, enc: p.wireExtract(fi, "encode", recvVer), dec: p.wireExtract(di, "decode", recvVer)})
	}
	sort.Slice(out, func(i, j int) bool { return out[i].Type < out[j].Type })
	return out
}

// versionPoints: representatives of the regions of the version line delimited by the constants compared with it.
func (pr *wirePair) versionPoints() []int64 {
	set := map[int64]bool{0: true}
	for _, f := range []*wFunc{pr.enc, pr.dec} {
		for c := range f.consts {
			for _, d := range []int64{-1, 0, 1} {
				if c+d >= 0 && c+d <= 32767 {
					set[c+d] = true
				}
			}
		}
	}
	var out []int64
	for v := range set {
		out = append(out, v)
	}
	sort.Slice(out, func(i, j int) bool { return out[i] < out[j] })
	return out
}

type wireVerdict struct {
	Type        string
	Status      string // "unsat" dual for every version, "sat" mismatch, "unknown" out of reach
	Detail      string
	Points      []int64
	RegionsSMT  string // query: every version guard is constant on every region
	Shapes      map[int64]string
	Unsupported []string
	// field correspondence (only for pairs that are dual without writing nested blocks out)
	FieldCompared, FieldSkipped int
	FieldIssues                 []string
	Unbalanced                  string // push/pop balance of both functions on every successful path
	HasPush                     bool
}

func (p *Prog) wireCheck(pr *wirePair) *wireVerdict {
	v := &wireVerdict{Type: pr.Type, Shapes: map[int64]string{}}
	v.Unsupported = append(append([]string{}, pr.enc.unsupported...), pr.dec.unsupported...)
	if len(v.Unsupported) > 0 {
		v.Status = "unknown"
		v.Detail = "out of reach of the wire grammar extractor: " + strings.Join(v.Unsupported, "; ")
		return v
	}
	v.Points = pr.versionPoints()
	v.Status = "unsat"
	for _, f := range []*wFunc{pr.enc, pr.dec} {
		f.keepPush = true
		for _, ver := range v.Points {
			g := f.specialise(f.items, ver)
			var has func(items []*wNode) bool
			has = func(items []*wNode) bool {
				for _, n := range items {
					if n.K == wPush || n.K == wPop || has(n.Then) || has(n.Else) || has(n.Body) {
						return true
					}
				}
				return false
			}
			if has(g) {
				v.HasPush = true
			}
			if m := unbalanced(g, 0, p); m != "" && v.Unbalanced == "" {
				v.Unbalanced = fmt.Sprintf("%s.%s, version %d: %s", pr.Type, f.side, ver, m)
			}
		}
		f.keepPush = false
	}
	for _, ver := range v.Points {
		e := pr.enc.specialise(pr.enc.items, ver)
		d := pr.dec.specialise(pr.dec.items, ver)
		if isAbort(e) || isAbort(d) {
			// one side rejects this version: no round trip to speak of
			v.Shapes[ver] = "(rejected: encode " + wString(e) + ", decode " + wString(d) + ")"
			continue
		}
		e = stripEmptyEncodings(e)
		v.Shapes[ver] = wString(e)
		pr.fieldsOn = true
		ok, msg := p.wireCompare(pr, e, d, ver, "v"+strconv.FormatInt(ver, 10))
		pr.fieldsOn = false
		if !ok {
			// nested blocks written out: an encoder may write in place what the decoder reads through a block type
			pairs := p.wirePairMap()
			ei, di := pr.enc.inlined(e, ver, pairs, 0), pr.dec.inlined(d, ver, pairs, 0)
			if ok2, msg2 := p.wireCompare(pr, ei, di, ver, "v"+strconv.FormatInt(ver, 10)+"(blocks written out)"); ok2 {
				ok = true
				v.Shapes[ver] = wString(ei)
			} else {
				msg = msg + "\n  with nested blocks written out: " + msg2 + "\n  encode: " + wString(ei) + "\n  decode: " + wString(di)
			}
		}
		if !ok {
			v.Status = "sat"
			v.Detail = fmt.Sprintf("version %d: %s\n  encode grammar: %s\n  decode grammar: %s", ver, msg, wString(e), wString(d))
			return v
		}
	}
	v.RegionsSMT = pr.regionsQuery(v.Points)
	v.FieldCompared, v.FieldSkipped = pr.fieldCompared, pr.fieldSkipped
	// the version is part of the value: an encoder that takes it from the receiver's Version field needs a decoder
	// that stores the version it was called with into that field
	if pr.enc.usesRecvVer && pr.enc.verParam == nil && pr.dec.verParam != nil {
		pr.fieldCompared++
		v.FieldCompared++
		if !pr.dec.assignsRecvVer {
			pr.fieldIssues = append(pr.fieldIssues, "version: "+pr.Type+".encode takes the protocol version from $.Version ("+p.posShort(pr.enc.fi.Body.Pos())+"), which "+pr.Type+".decode never sets from its version argument ("+p.posShort(pr.dec.fi.Body.Pos())+")")
		}
	}
	seen := map[string]bool{}
	for _, is := range pr.fieldIssues {
		// the same pair of statements is met once per version: report it once
		key := is[strings.Index(is, ": ")+2:]
		if !seen[key] {
			seen[key] = true
			v.FieldIssues = append(v.FieldIssues, is)
		}
	}
	return v
}

// regionsQuery: satisfiable iff some version gives the version guards a combination of truth values that none of
// the representatives gives, i.e. iff the case split over the representatives is incomplete. Data-dependent atoms
// are free booleans shared by the version and the representative.
func (pr *wirePair) regionsQuery(points []int64) string {
	var sb strings.Builder
	atoms := map[string]string{}
	var conj []string
	nGuards := 0
	for _, r := range points {
		rs := strconv.FormatInt(r, 10)
		if r < 0 {
			rs = "(- " + strconv.FormatInt(-r, 10) + ")"
		}
		var diffs []string
		for _, f := range []*wFunc{pr.enc, pr.dec} {
			for _, g := range f.guards {
				nGuards++
				diffs = append(diffs, "(not (= "+f.guardSMT(g, "v", atoms)+" "+f.guardSMT(g, rs, atoms)+"))")
			}
		}
		if len(diffs) == 0 {
			conj = append(conj, "false")
		} else {
			conj = append(conj, "(or "+strings.Join(diffs, " ")+")")
		}
	}
	sb.WriteString("(set-logic QF_LIA)\n(declare-const v Int)\n")
	var names []string
	for _, a := range atoms {
		names = append(names, a)
	}
	sort.Strings(names)
	for _, a := range names {
		sb.WriteString("(declare-const " + a + " Bool)\n")
	}
	sb.WriteString("(assert (and (<= 0 v) (<= v 32767)))\n")
	for _, c := range conj {
		sb.WriteString("(assert " + c + ")\n")
	}
	sb.WriteString("(check-sat)\n")
	return sb.String()
}

// wireResults: one obligation per pair; the case split of a dual pair is certified by the SMT solver.
func (p *Prog) wireResults(dir string) []*Result {
	os.MkdirAll(dir, 0o755)
	var out []*Result
	for _, pr := range p.wirePairs() {
		start := time.Now()
		v := p.wireCheck(pr)
		ob := &Oblig{Name: "wire/" + pr.Type + "/dual", Kind: "wire-dual", Func: pr.Type + ".encode", Label: "dual", Props: p.wireProps,
			Pos:   p.posShort(pr.enc.fi.Body.Pos()),
			Descr: "for every protocol version, " + pr.Type + ".decode reads exactly the tokens " + pr.Type + ".encode writes, in the same order, each with the dual primitive (nested blocks: same block type and version; loops: dual bodies)"}
		res := &Result{Ob: ob, Status: v.Status, Solver: "lockstep", Output: v.Detail}
		if v.Status == "unsat" {
			file := filepath.Join(dir, sanitizeFile(pr.Type)+"_regions.smt2")
			os.WriteFile(file, []byte(v.RegionsSMT), 0o644)
			res.File = file
			cmd := exec.Command("z3", "-T:10", file)
			o, _ := cmd.CombinedOutput()
			first := strings.TrimSpace(strings.SplitN(string(o), "\n", 2)[0])
			res.Solver = "lockstep+z3"
			var pts []string
			for _, pt := range v.Points {
				pts = append(pts, strconv.FormatInt(pt, 10))
			}
			res.Output = "versions compared: " + strings.Join(pts, ",") + "; completeness of the case split: " + first
			if first != "unsat" {
				res.Status = "unknown"
				res.Output = "the case split over the version is not certified complete (" + first + "): " + res.Output
			}
		}
		res.TimeS = time.Since(start).Seconds()
		out = append(out, res)
		// second clause: each token is stored into the field (length, key, element) it was written from
		fob := &Oblig{Name: "wire/" + pr.Type + "/fields", Kind: "wire-fields", Func: pr.Type + ".encode", Label: "fields", Props: p.wireProps,
			Pos:   p.posShort(pr.enc.fi.Body.Pos()),
			Descr: "every token " + pr.Type + ".decode reads is stored into the field (or the length, key or element of the collection) that " + pr.Type + ".encode wrote it from"}
		fres := &Result{Ob: fob, Solver: "lockstep", Status: "unknown"}
		switch {
		case res.Status != "unsat":
			fres.Output = "the pair is not shown dual, so tokens are not matched"
		case len(v.FieldIssues) > 0:
			fres.Status = "sat"
			fres.Output = strings.Join(v.FieldIssues, "\n")
		case v.FieldCompared == 0:
			fres.Output = "no token whose source and destination can both be determined"
		default:
			fres.Status = "unsat"
			fres.Output = fmt.Sprintf("%d token comparisons over the versions compared, %d tokens skipped (source or destination not an access path)", v.FieldCompared, v.FieldSkipped)
		}
		out = append(out, fres)
		// third clause: push fields are popped on every successful path
		if v.HasPush && len(v.Unsupported) == 0 {
			bob := &Oblig{Name: "wire/" + pr.Type + "/balanced", Kind: "wire-balanced", Func: pr.Type + ".encode", Label: "balanced", Props: p.wireProps,
				Pos:   p.posShort(pr.enc.fi.Body.Pos()),
				Descr: "on every path on which " + pr.Type + ".encode / " + pr.Type + ".decode succeeds, every length or CRC field that was pushed is popped (encode: the field is written; decode: the field is checked against the data)"}
			bres := &Result{Ob: bob, Solver: "lockstep", Status: "unsat", Output: "balanced on every successful path of both functions, for every version compared"}
			if v.Unbalanced != "" {
				bres.Status = "sat"
				bres.Output = v.Unbalanced
			}
			out = append(out, bres)
		}
	}
	return out
}
