package main

import (
	"fmt"
	"go/ast"
	"go/token"
	"go/types"
	"sort"
	"strings"
)

var _ = ast.NewIdent

var ghostHeap = map[string]bool{}

// lowerTop lowers one function (or literal) under its contract into IVL with all obligations.
func (p *Prog) lowerTop(fi *FuncInfo, ct *Contract) (fv *FuncIVL, err error) {
	defer func() {
		if r := recover(); r != nil {
			err = fmt.Errorf("%s: %v", fi.Key, r)
		}
	}()
	f := &FuncIVL{Key: fi.Key, Vars: map[string]string{}, HeapVars: map[string]bool{}, Assumptions: map[string]bool{},
		VarTypes: map[string]interface{}{}}
	f.WfOf = func(v *Term, typ interface{}) *Term {
		if t, ok := typ.(types.Type); ok {
			return p.wfTerm(v, t, true)
		}
		return nil
	}
	l := &Lowerer{p: p, f: f, obOrd: map[string]int{}, labels: map[string]*Block{}, fnKey: fi.Key,
		escaped: map[string]bool{}, escapedHeap: map[string]bool{}, labelSeen: map[string]bool{}, initializing: map[string]bool{}, siteOrd: map[string]int{}}
	if ct != nil {
		l.curProps = ct.Props
		l.noSafety = ct.NoSafety
	}
	fr := &frame{fi: fi, objVar: map[types.Object]string{}, contract: ct}
	l.fr = fr
	if fi.Body != nil {
		ast.Inspect(fi.Body, func(n ast.Node) bool {
			if ce, ok := n.(*ast.CallExpr); ok && len(ce.Args) == 1 {
				if id, ok := ce.Fun.(*ast.Ident); ok && id.Name == "len" {
					if t := fi.Pkg.TypesInfo.TypeOf(ce.Args[0]); t != nil {
						if _, isChan := t.Underlying().(*types.Chan); isChan {
							l.chanLenTracked = true
						}
					}
				}
			}
			return true
		})
	}
	f.Entry = f.newBlock("entry")
	l.cur = f.Entry
	if ct != nil && ct.NoPanic != "" {
		l.assertOb("ensures", ct.NoPanic, "nopanic: the function contains no reachable panic(...) call", nil, tTrue, ct.Props)
	}
	f.declare("$alloc", "Int")
	f.HeapVars["$alloc"] = true
	l.assume(Lt(IntLit(0), V("$alloc", "Int")))
	info := fi.Pkg.TypesInfo
	env := map[string]envEntry{}
	// receiver and parameters
	var paramObjs []*types.Var
	var recvObj *types.Var
	var ftype *ast.FuncType
	if fi.Decl != nil {
		ftype = fi.Decl.Type
		if fi.Decl.Recv != nil && len(fi.Decl.Recv.List) > 0 && len(fi.Decl.Recv.List[0].Names) > 0 {
			recvObj, _ = info.Defs[fi.Decl.Recv.List[0].Names[0]].(*types.Var)
		}
	} else {
		ftype = fi.Lit.Type
	}
	if ftype.Params != nil {
		for _, fld := range ftype.Params.List {
			if len(fld.Names) == 0 {
				paramObjs = append(paramObjs, nil)
			}
			for _, nm := range fld.Names {
				o, _ := info.Defs[nm].(*types.Var)
				paramObjs = append(paramObjs, o)
			}
		}
	}
	bindEntry := func(o *types.Var, names ...string) {
		if o == nil || o.Name() == "_" {
			return
		}
		vn := l.localVar(o)
		s := f.Vars[vn]
		l.wf(V(vn, s), o.Type())
		// entry snapshot used by specs
		sn := "$p." + o.Name()
		l.assign(sn, s, V(vn, s))
		ot := o.Type()
		if p.opts.concretePD && namedOf(ot) == "packetDecoder" {
			// replay search: the decoder is a *realDecoder over symbolic bytes, positioned anywhere valid
			if tn, ok := fi.Pkg.Types.Scope().Lookup("realDecoder").(*types.TypeName); ok {
				ot = types.NewPointer(tn.Type())
				rawv := l.heapVar("F.realDecoder.raw", p.sortOf(types.NewSlice(types.Typ[types.Uint8])))
				offv := l.heapVar("F.realDecoder.off", "Int")
				rv := Select(rawv, V(vn, s))
				l.wf(rv, types.NewSlice(types.Typ[types.Uint8]))
				l.assume(And(Le(IntLit(0), Select(offv, V(vn, s))), Le(Select(offv, V(vn, s)), p.reg.sLen(rv)), Lt(IntLit(0), V(vn, s))))
			}
		}
		env[o.Name()] = envEntry{V(sn, s), ot}
		for _, n := range names {
			if n != "" && n != "_" {
				env[n] = envEntry{V(sn, s), ot}
			}
		}
	}
	chain := p.contractChain(ct)
	if recvObj != nil {
		var names []string
		for _, c := range chain {
			names = append(names, c.RecvName)
		}
		bindEntry(recvObj, names...)
	}
	for i, o := range paramObjs {
		var names []string
		for _, c := range chain {
			if i < len(c.Params) {
				names = append(names, c.Params[i])
			}
		}
		bindEntry(o, names...)
	}
	// literal: captured variables of enclosing functions
	if fi.Lit != nil {
		seen := map[types.Object]bool{}
		assignedInLit := map[types.Object]bool{}
		ast.Inspect(fi.Lit.Body, func(n ast.Node) bool {
			var lhs []ast.Expr
			switch st := n.(type) {
			case *ast.AssignStmt:
				if st.Tok != token.DEFINE {
					lhs = st.Lhs
				}
			case *ast.IncDecStmt:
				lhs = []ast.Expr{st.X}
			}
			for _, e := range lhs {
				if id, ok := ast.Unparen(e).(*ast.Ident); ok {
					if o := info.Uses[id]; o != nil {
						assignedInLit[o] = true
					}
				}
			}
			return true
		})
		ast.Inspect(fi.Lit.Body, func(n ast.Node) bool {
			id, ok := n.(*ast.Ident)
			if !ok {
				return true
			}
			v, ok := info.Uses[id].(*types.Var)
			if !ok || v.IsField() || v.Pkg() == nil || v.Parent() == v.Pkg().Scope() || seen[v] {
				return true
			}
			if v.Pos() >= fi.Lit.Pos() && v.Pos() <= fi.Lit.End() {
				return true
			}
			seen[v] = true
			bindEntry(v)
			if assignedInLit[v] {
				// a captured variable the literal assigns is shared with the enclosing function: specs see its
				// current value (old(v) is its value on entry), not a snapshot
				delete(env, v.Name())
			}
			return true
		})
	}
	// results
	resTypes := tupleTypes(fi.Sig.Results())
	fr.resTypes = resTypes
	k := 0
	if ftype.Results != nil {
		for _, fld := range ftype.Results.List {
			if len(fld.Names) == 0 {
				n := fmt.Sprintf("$res%d", k)
				f.declare(n, p.sortOf(resTypes[k]))
				fr.results = append(fr.results, n)
				k++
				continue
			}
			for _, nm := range fld.Names {
				o, _ := info.Defs[nm].(*types.Var)
				var n string
				if o != nil && nm.Name != "_" {
					n = l.localVar(o)
				} else {
					n = fmt.Sprintf("$res%d", k)
					f.declare(n, p.sortOf(resTypes[k]))
				}
				l.assign(n, f.Vars[n], p.zeroOf(resTypes[k]))
				fr.results = append(fr.results, n)
				k++
			}
		}
	}
	// locals declared in the body hold their zero value until their declaration executes (specs checked at
	// early returns may mention them)
	if ct != nil && (ct.PerReturn || len(ct.Ensures) > 0) {
		type defn struct {
			pos token.Pos
			v   *types.Var
		}
		var defs []defn
		for id, obj := range info.Defs {
			v, ok := obj.(*types.Var)
			if !ok || v.IsField() || id.Pos() < fi.Body.Pos() || id.Pos() > fi.Body.End() || id.Name == "_" {
				continue
			}
			if l.isBoxed(v) {
				continue
			}
			// variables of nested function literals belong to those literals
			inLit := false
			ast.Inspect(fi.Body, func(n ast.Node) bool {
				if fl, ok := n.(*ast.FuncLit); ok && fl != fi.Lit {
					if id.Pos() >= fl.Pos() && id.Pos() <= fl.End() {
						inLit = true
					}
					return false
				}
				return true
			})
			if inLit {
				continue
			}
			defs = append(defs, defn{id.Pos(), v})
		}
		sort.Slice(defs, func(i, j int) bool { return defs[i].pos < defs[j].pos })
		for _, d := range defs {
			name := l.localVar(d.v)
			if srt := f.Vars[name]; srt != "" {
				l.assign(name, srt, p.zeroOf(d.v.Type()))
			}
		}
	}
	f.declare("$acquired", "Bool")
	l.assign("$acquired", "Bool", tFalse)
	l.initDeferGuards(fr, fi.Body)
	// decoder in scope: allocation bound for make()
	l.setupAllocBound(fi, paramObjs, recvObj)
	// requires
	reqs, enss, _ := p.allClauses(ct)
	l.pushEnv(env)
	for _, c := range reqs {
		l.assume(l.specTerm(c, nil))
	}
	// body
	fr.retBlock = f.newBlock("ret")
	perReturn := ct != nil && ct.PerReturn && len(fr.deferGuard) == 0
	l.topEnv = env
	l.topChain = chain
	l.topEnss = enss
	l.topCt = ct
	l.block(fi.Body)
	if perReturn && l.cur != nil {
		l.emitEnsures()
	}
	l.jump(fr.retBlock)
	l.cur = fr.retBlock
	l.runDefers(fr)
	// ensures
	for i := range fr.results {
		rv := V(fr.results[i], f.Vars[fr.results[i]])
		env[fmt.Sprintf("$r%d", i)] = envEntry{rv, resTypes[i]}
		for _, c := range chain {
			if i < len(c.Returns) {
				env[c.Returns[i]] = envEntry{rv, resTypes[i]}
			}
		}
		if n := fi.Sig.Results().At(i).Name(); n != "" && n != "_" {
			env[n] = envEntry{rv, resTypes[i]}
		}
	}
	if !perReturn {
		for _, c := range enss {
			t := l.specTerm(c, nil)
			props := clauseProps(ct, c)
			l.assertOb("ensures", c.Label, c.Src, nil, t, props)
			l.tagLastOb(c.Label, c.Uses...)
		}
	}
	// frame obligations
	l.frameObligations(ct, chain)
	// vacuity canary: the exit must be reachable under the precondition
	if l.cur != nil {
		ob := &Oblig{Name: fi.Key + "/canary/exit-reachable", Kind: "canary", Func: fi.Key, Canary: true, Props: l.curProps,
			Descr: "vacuity guard: `ensures false` must be refuted (some return is reachable under the precondition)"}
		f.Obligs = append(f.Obligs, ob)
		l.emit(&Stmt{Kind: SAssert, E: tFalse, Ob: ob})
	}
	l.popEnv()
	// entry snapshots for old()
	var olds []string
	for v := range f.Vars {
		if strings.HasSuffix(v, "@old") {
			olds = append(olds, v)
		}
	}
	sort.Strings(olds)
	var pre []*Stmt
	for _, v := range olds {
		base := strings.TrimSuffix(v, "@old")
		if _, ok := f.Vars[base]; !ok {
			continue
		}
		pre = append(pre, &Stmt{Kind: SAssign, Var: v, Sort: f.Vars[v], E: V(base, f.Vars[base])})
	}
	f.Entry.Stmts = append(pre, f.Entry.Stmts...)
	insertSnapshots(f, "@it", l.itPoints, len(pre))
	// acq(...) snapshots at every lock acquisition (later acquisitions overwrite earlier ones)
	var acqs []string
	for v := range f.Vars {
		if strings.HasSuffix(v, "@acq") {
			acqs = append(acqs, v)
		}
	}
	sort.Strings(acqs)
	if len(acqs) > 0 {
		// insert from the last point to the first so indices stay valid per block
		pts := append([]acqPoint{}, l.acqPoints...)
		sort.SliceStable(pts, func(i, j int) bool {
			if pts[i].b.ID != pts[j].b.ID {
				return pts[i].b.ID < pts[j].b.ID
			}
			return pts[i].idx > pts[j].idx
		})
		for _, pt := range pts {
			var ins []*Stmt
			for _, v := range acqs {
				base := strings.TrimSuffix(v, "@acq")
				if _, ok := f.Vars[base]; !ok {
					continue
				}
				ins = append(ins, &Stmt{Kind: SAssign, Var: v, Sort: f.Vars[v], E: V(base, f.Vars[base])})
			}
			idx := pt.idx
			if pt.b == f.Entry {
				idx += len(pre)
			}
			st := append([]*Stmt{}, pt.b.Stmts[:idx]...)
			st = append(st, ins...)
			st = append(st, pt.b.Stmts[idx:]...)
			pt.b.Stmts = st
		}
	}
	// ghost heap variables known to the mod-set matcher
	for tn, fs := range p.ghostFields {
		for gf := range fs {
			ghostHeap["F."+tn+"."+gf] = true
		}
	}
	if ct != nil && ct.PerReturn {
		f.splitJoinAsserts()
	}
	f.expandPseudo(func(hv string) *Term { return p.zeroForHeapVar(f, hv) })
	f.dischargeFreshFrames()
	f.fillLoopHavocs(p.reg)
	return f, nil
}

func (p *Prog) contractChain(ct *Contract) []*Contract {
	var out []*Contract
	seen := map[*Contract]bool{}
	for c := ct; c != nil && !seen[c]; {
		seen[c] = true
		out = append(out, c)
		if c.Refines == "" {
			break
		}
		c = p.contracts[c.Refines]
	}
	return out
}

func (p *Prog) zeroForHeapVar(f *FuncIVL, hv string) *Term {
	es := arrayElemSort(f.Vars[hv])
	if t, ok := p.heapVarTypes[hv]; ok {
		return p.zeroOf(t)
	}
	switch es {
	case "Int":
		return IntLit(0)
	case "Bool":
		return tFalse
	case "Real":
		return Lit("0.0", "Real")
	case "Str":
		return p.strLit("")
	}
	if strings.HasPrefix(es, "Slice_") {
		return p.nilSlice(es)
	}
	// arrays and structs: an unconstrained constant is a sound stand-in only if unused; use a declared zero
	cn := "zero_" + sortIdent(es)
	p.reg.Fun(cn, nil, es)
	return App(cn, es)
}

func (l *Lowerer) initDeferGuards(fr *frame, body *ast.BlockStmt) {
	// guards start false; set when the defer statement executes
	fr.deferGuard = map[*ast.DeferStmt]string{}
	if body == nil {
		return
	}
	ast.Inspect(body, func(n ast.Node) bool {
		switch x := n.(type) {
		case *ast.FuncLit:
			return false
		case *ast.DeferStmt:
			l.tmpN++
			g := fmt.Sprintf("$defer%d", l.tmpN)
			l.assign(g, "Bool", tFalse)
			fr.deferGuard[x] = g
		}
		return true
	})
}

// setupAllocBound: if the function has a packetDecoder (or *realDecoder) in scope, lengths passed to
// make() must be bounded by the bytes remaining (C10 "allocation in proportion to the input").
func (l *Lowerer) setupAllocBound(fi *FuncInfo, params []*types.Var, recv *types.Var) {
	var dec *types.Var
	cands := append([]*types.Var{recv}, params...)
	for _, o := range cands {
		if o == nil {
			continue
		}
		n := namedOf(o.Type())
		if n == "packetDecoder" || n == "realDecoder" {
			dec = o
			break
		}
	}
	if dec == nil {
		return
	}
	decName := dec.Name()
	l.decoderRemaining = func() *Term {
		e, err := parseSpec(decName + ".remaining()")
		if err != nil {
			return nil
		}
		savedSpec, savedGuard := l.spec, l.guard
		l.spec, l.guard = true, nil
		// current (not entry) value of the decoder variable
		l.pushEnv(map[string]envEntry{decName: {V(l.localVar(dec), "Int"), dec.Type()}})
		t, _ := l.tr(e)
		l.popEnv()
		l.spec, l.guard = savedSpec, savedGuard
		// a generous proportionality constant: lengths up to max(remaining, 2*MaxUint16) elements
		return Ite(Le(t, IntLit(131070)), IntLit(131070), t)
	}
}

// frameObligations: with an explicit modifies clause, every heap variable assigned in the body must
// be unchanged outside the declared frame (for objects that existed at entry).
func (l *Lowerer) frameObligations(ct *Contract, chain []*Contract) {
	if ct == nil {
		return
	}
	mods, has := l.p.allModifies(ct)
	decoderOnly := false
	if (ct.Auto || ct.DecoderFrame) && l.cur != nil {
		// frame of the sweep contracts: decoder state changes only at the decoders passed in
		decoderOnly = true
		has = true
		mods = nil
		for _, n := range l.decoderArgs(l.fr.fi) {
			mods = append(mods, n+".*")
		}
	}
	if !has || l.cur == nil {
		return
	}
	// parse items in the entry state
	type allowed struct {
		whole bool
		refs  []*Term
	}
	allow := map[string]*allowed{}
	allAllowed := false
	mapsAllowed := false
	structRefs := map[string][]*Term{}
	savedSpec, savedOld := l.spec, l.oldRename
	l.spec = true
	l.oldRename = entryOld
	for _, m := range mods {
		for _, it := range l.parseModItem(m) {
			switch {
			case it.all:
				allAllowed = true
			case it.maps:
				mapsAllowed = true
			case it.heapVar != "":
				a := allow[it.heapVar]
				if a == nil {
					a = &allowed{}
					allow[it.heapVar] = a
				}
				if it.ref == nil {
					a.whole = true
				} else {
					a.refs = append(a.refs, it.ref)
				}
			case it.strct != "":
				structRefs[it.strct] = append(structRefs[it.strct], it.ref)
			}
		}
	}
	l.spec, l.oldRename = savedSpec, savedOld
	if allAllowed {
		return
	}
	// heap variables assigned anywhere in the function
	assigned := map[string]bool{}
	for _, b := range l.f.Blocks {
		for _, s := range b.Stmts {
			switch s.Kind {
			case SAssign, SHavoc:
				if l.f.HeapVars[s.Var] {
					assigned[s.Var] = true
				}
			case SHavocAll:
				assigned["*"] = true
			case SHavocSet:
				for k := range s.Set {
					assigned["set:"+k] = true
				}
			case SHavocObj, SAllocZero:
				assigned["struct:"+s.Struct] = true
			}
		}
	}
	l.pendingFrame = func() {
		// runs after all heap variables are known (called from expand step)
	}
	var hvs []string
	for hv := range l.f.HeapVars {
		hvs = append(hvs, hv)
	}
	sort.Strings(hvs)
	for _, hv := range hvs {
		if hv == "$alloc" || strings.HasPrefix(hv, "F.$lock.") || strings.HasPrefix(hv, "F.$chan.sent.") || hv == "F.$chan.cap" {
			// (the per-channel send counters are bookkeeping of the engine: a send increments one; they are
			// constrained by clauses that mention sent(...), not by frames)
			continue
		}
		if decoderOnly && !isDecoderState(hv) {
			continue
		}
		isAssigned := assigned[hv] || assigned["*"]
		if !isAssigned {
			for k := range assigned {
				if strings.HasPrefix(k, "set:") && modsetMatches(map[string]bool{k[4:]: true}, hv) {
					isAssigned = true
				}
				if strings.HasPrefix(k, "struct:") && strings.HasPrefix(hv, "F."+k[7:]+".") {
					isAssigned = true
				}
			}
		}
		if !isAssigned {
			continue
		}
		if strings.HasPrefix(hv, "M.") && mapsAllowed {
			continue
		}
		if l.p.isGuardedHeapVar(hv) {
			continue // guarded fields change under other goroutines while the lock is not held: no frame claim
		}
		srt := l.f.Vars[hv]
		cur := V(hv, srt)
		l.f.declare(hv+"@old", srt)
		old := V(hv+"@old", srt)
		if strings.HasPrefix(hv, "g.") {
			if a := allow[hv]; a != nil {
				continue
			}
			l.assertOb("frame", strings.TrimPrefix(hv, "g."), "global "+hv+" is not in the modifies clause", nil, Eq(cur, old), nil)
			continue
		}
		a := allow[hv]
		if a != nil && a.whole {
			continue
		}
		var refs []*Term
		if a != nil {
			refs = append(refs, a.refs...)
		}
		if strings.HasPrefix(hv, "F.") {
			rest := hv[2:]
			if i := strings.Index(rest, "."); i > 0 {
				refs = append(refs, structRefs[rest[:i]]...)
			}
		}
		l.quantN++
		bv := &Term{Op: "bound", Name: fmt.Sprintf("fr!%d", l.quantN), Sort: "Int"}
		cond := []*Term{Lt(IntLit(0), bv), Lt(bv, V("$alloc@old", "Int"))}
		l.f.declare("$alloc@old", "Int")
		for _, r := range refs {
			cond = append(cond, Not(Eq(bv, r)))
		}
		body := Implies(And(cond...), Eq(Select(cur, bv), Select(old, bv)))
		l.assertOb("frame", strings.TrimPrefix(hv, "F."), "only the declared frame of "+hv+" changes", nil,
			&Term{Op: "forall", Sort: "Bool", Args: []*Term{bv, body}}, nil)
		if l.cur != nil && len(l.cur.Stmts) > 0 {
			l.cur.Stmts[len(l.cur.Stmts)-1].FrameVar = hv
		}
	}
}

// specLowerer returns a lowerer for closed spec terms (lemmas, axioms) in package pkg.
func (p *Prog) specLowerer(key string) *Lowerer {
	f := &FuncIVL{Key: key, Vars: map[string]string{}, HeapVars: map[string]bool{}, Assumptions: map[string]bool{}}
	l := &Lowerer{p: p, f: f, obOrd: map[string]int{}, labels: map[string]*Block{}, fnKey: key,
		escaped: map[string]bool{}, escapedHeap: map[string]bool{}, labelSeen: map[string]bool{}, initializing: map[string]bool{}, siteOrd: map[string]int{}}
	fi := &FuncInfo{Key: key, Pkg: p.pkgs[0]}
	l.fr = &frame{fi: fi, objVar: map[types.Object]string{}}
	f.Entry = f.newBlock("entry")
	l.cur = f.Entry
	l.spec = true
	return l
}

// setupGhost declares ghost functions and their axioms (once, after contracts are loaded).
func (p *Prog) setupGhost() (err error) {
	defer func() {
		if r := recover(); r != nil {
			err = fmt.Errorf("ghost setup: %v", r)
		}
	}()
	l := p.specLowerer("$ghost")
	for _, g := range p.ghostFunDecls {
		var sorts []string
		for _, a := range g.args {
			sorts = append(sorts, p.sortOf(l.ghostTypeExpr(a)))
		}
		rt := l.ghostTypeExpr(g.res)
		p.ghostFuns[g.name] = &ghostFun{argSorts: sorts, resSort: p.sortOf(rt), resType: rt}
		p.reg.Fun("ghost."+g.name, sorts, p.sortOf(rt))
	}
	for _, a := range p.axioms {
		t, _ := l.tr(a.Expr)
		var sb strings.Builder
		t.Print(&sb, func(s string) string { return s })
		p.reg.Axiom("ghost."+a.Label, sb.String())
	}
	return nil
}

func (l *Lowerer) ghostTypeExpr(s string) types.Type {
	e, err := parseSpec("forall x " + s + " :: true")
	if err != nil {
		panic(err)
	}
	return l.specType(e.(*ast.CallExpr).Args[1])
}

// lemmaQueries: lemmas are closed formulas proved on their own.
func (p *Prog) lemmaQueries(prop string) []*Query {
	var out []*Query
	for _, c := range p.lemmas {
		if !hasProp(c.Props, prop) {
			continue
		}
		l := p.specLowerer("lemma." + c.Label)
		var t *Term
		func() {
			defer func() {
				if r := recover(); r != nil {
					p.warn("lemma %s: %v", c.Label, r)
				}
			}()
			t, _ = l.tr(c.Expr)
		}()
		if t == nil {
			continue
		}
		ob := &Oblig{Name: "lemma/" + c.Label, Kind: "lemma", Func: "lemma", Label: c.Label, Descr: c.Src, Props: c.Props}
		l.emit(&Stmt{Kind: SAssert, E: t, Ob: ob})
		l.f.Obligs = append(l.f.Obligs, ob)
		qs, err := generateVCs(p, l.f)
		if err != nil {
			p.warn("lemma %s: %v", c.Label, err)
			continue
		}
		out = append(out, qs...)
	}
	return out
}

// insertSnapshots assigns every variable X<suffix> := X at the recorded points.
func insertSnapshots(f *FuncIVL, suffix string, points []acqPoint, entryShift int) {
	var names []string
	for v := range f.Vars {
		if strings.HasSuffix(v, suffix) {
			names = append(names, v)
		}
	}
	if len(names) == 0 {
		return
	}
	sort.Strings(names)
	pts := append([]acqPoint{}, points...)
	sort.SliceStable(pts, func(i, j int) bool {
		if pts[i].b.ID != pts[j].b.ID {
			return pts[i].b.ID < pts[j].b.ID
		}
		return pts[i].idx > pts[j].idx
	})
	for _, pt := range pts {
		var ins []*Stmt
		for _, v := range names {
			base := strings.TrimSuffix(v, suffix)
			if _, ok := f.Vars[base]; !ok {
				continue
			}
			ins = append(ins, &Stmt{Kind: SAssign, Var: v, Sort: f.Vars[v], E: V(base, f.Vars[base])})
		}
		idx := pt.idx
		if pt.b == f.Entry {
			idx += entryShift
		}
		st := append([]*Stmt{}, pt.b.Stmts[:idx]...)
		st = append(st, ins...)
		st = append(st, pt.b.Stmts[idx:]...)
		pt.b.Stmts = st
	}
}

func (p *Prog) isGuardedHeapVar(hv string) bool {
	for key, fields := range p.guardedBy {
		owner := key[:strings.LastIndex(key, ".")]
		for _, f := range fields {
			if strings.HasPrefix(f, "contents(") {
				continue
			}
			if hv == "F."+owner+"."+f || strings.HasPrefix(hv, "F."+owner+"."+f+".") {
				return true
			}
		}
	}
	return false
}

// emitEnsures asserts the postconditions at the current point (a return statement), with the result
// names bound to the result variables.
func (l *Lowerer) emitEnsures() {
	fr := l.fr
	fi := fr.fi
	env := map[string]envEntry{}
	for i := range fr.results {
		rv := V(fr.results[i], l.f.Vars[fr.results[i]])
		env[fmt.Sprintf("$r%d", i)] = envEntry{rv, fr.resTypes[i]}
		for _, c := range l.topChain {
			if i < len(c.Returns) {
				env[c.Returns[i]] = envEntry{rv, fr.resTypes[i]}
			}
		}
		if n := fi.Sig.Results().At(i).Name(); n != "" && n != "_" {
			env[n] = envEntry{rv, fr.resTypes[i]}
		}
	}
	for _, c := range l.topEnss {
		t := l.specTerm(c, env)
		l.assertOb("ensures", c.Label, c.Src, nil, t, clauseProps(l.topCt, c))
		l.tagLastOb(c.Label, c.Uses...)
	}
}
