package main

import (
	"bytes"
	"context"
	"fmt"
	"os"
	"os/exec"
	"path/filepath"
	"runtime"
	"strings"
	"sync"
	"time"
)

type Result struct {
	Ob     *Oblig
	Status string // unsat, sat, unknown, timeout, error
	Solver string
	TimeS  float64
	File   string
	Model  string
	Output string
	Query  *Query
}

type solverSpec struct {
	name string
	args func(file string, timeoutS int) []string
}

var solvers = []solverSpec{
	{"z3-new", func(f string, t int) []string { return []string{"z3-new", fmt.Sprintf("-T:%d", t), f} }},
	{"z3", func(f string, t int) []string { return []string{"z3", fmt.Sprintf("-T:%d", t), f} }},
	{"cvc5", func(f string, t int) []string {
		return []string{"cvc5", fmt.Sprintf("--tlimit=%d", t*1000), "--produce-models", f}
	}},
}

func runSolver(ctx context.Context, s solverSpec, file string, timeoutS int) (status, out string, dur float64) {
	// at most one solver process per core: a solver that shares its core runs into its time limit for
	// reasons that have nothing to do with the query
	solverSlots <- struct{}{}
	defer func() { <-solverSlots }()
	if ctx.Err() != nil {
		return "timeout", "cancelled", 0
	}
	args := s.args(file, timeoutS)
	start := time.Now()
	cctx, cancel := context.WithTimeout(ctx, time.Duration(timeoutS+2)*time.Second)
	defer cancel()
	cmd := exec.CommandContext(cctx, args[0], args[1:]...)
	var buf bytes.Buffer
	cmd.Stdout = &buf
	cmd.Stderr = &buf
	_ = cmd.Run()
	dur = time.Since(start).Seconds()
	out = buf.String()
	first := strings.TrimSpace(strings.SplitN(out, "\n", 2)[0])
	switch first {
	case "unsat", "sat", "unknown":
		return first, out, dur
	case "timeout":
		return "timeout", out, dur
	}
	if cctx.Err() != nil {
		return "timeout", out, dur
	}
	if strings.Contains(out, "interrupted") || strings.Contains(out, "timeout") {
		return "timeout", out, dur
	}
	return "error", out, dur
}

// solveQuery decides one query with a small portfolio.
func solveQuery(q *Query, dir string, timeoutS int, allSolvers bool) *Result {
	fn := sanitizeFile(q.Ob.Name) + ".smt2"
	file := filepath.Join(dir, fn)
	text := q.Text
	if !strings.Contains(text, "(get-model)") {
		text += "(get-model)\n"
	}
	os.MkdirAll(dir, 0o755)
	os.WriteFile(file, []byte(text), 0o644)
	res := &Result{Ob: q.Ob, File: file, Query: q}
	start := time.Now()
	ctx := context.Background()
	if allSolvers {
		// thorough: all three must not disagree
		type r struct{ st, out, name string }
		ch := make(chan r, len(solvers))
		for _, s := range solvers {
			go func(s solverSpec) {
				st, out, _ := runSolver(ctx, s, file, timeoutS)
				ch <- r{st, out, s.name}
			}(s)
		}
		var definite []r
		var all []r
		for range solvers {
			x := <-ch
			all = append(all, x)
			if x.st == "sat" || x.st == "unsat" {
				definite = append(definite, x)
			}
		}
		res.TimeS = time.Since(start).Seconds()
		if len(definite) == 0 && q.Focused != "" {
			if fr := solveFocused(ctx, q, dir, timeoutS, true); fr != nil {
				fr.TimeS = time.Since(start).Seconds()
				return fr
			}
		}
		if len(definite) == 0 {
			res.Status = "unknown"
			for _, x := range all {
				res.Output += x.name + ": " + firstLines(x.out, 3) + "\n"
			}
			return res
		}
		for _, x := range definite[1:] {
			if x.st != definite[0].st {
				res.Status = "error"
				res.Output = "solver disagreement: " + definite[0].name + "=" + definite[0].st + " " + x.name + "=" + x.st
				return res
			}
		}
		res.Status = definite[0].st
		var names []string
		for _, x := range definite {
			names = append(names, x.name)
		}
		res.Solver = strings.Join(names, "+")
		if res.Status == "sat" {
			res.Model = definite[0].out
		}
		return res
	}
	if q.Focused != "" {
		// the same goal with the quantified hypotheses of other clause families hidden: fewer hypotheses, so unsat
		// is conclusive; any other answer says nothing and the full query is decided next
		ft := timeoutS
		if ft > 2 {
			ft = 2
		}
		if fr := solveFocused(ctx, q, dir, ft, false); fr != nil {
			fr.TimeS = time.Since(start).Seconds()
			return fr
		}
	}
	// quick: z3-new first with a short budget, then race the rest
	t1 := timeoutS
	if t1 > 3 {
		t1 = 3
	}
	st, out, _ := runSolver(ctx, solvers[0], file, t1)
	if st == "sat" || st == "unsat" {
		res.Status, res.Solver, res.TimeS = st, solvers[0].name, time.Since(start).Seconds()
		if st == "sat" {
			res.Model = out
		}
		return res
	}
	firstOut := out
	if q.Ob.Canary || q.Ob.Cover {
		// vacuity canaries want a model, which the solvers rarely build in the presence of quantified axioms
		// (ghost-function axioms, the definitional idx_ axioms). Retry without the top-level quantified
		// assertions of the prelude: a model of the path condition then shows that the requires clauses and
		// the assumptions on the path are consistent among themselves (the axioms are trusted separately).
		var kept []string
		dropped := 0
		for _, ln := range strings.Split(q.Text, "\n") {
			if strings.HasPrefix(ln, "(assert (forall ") || strings.HasPrefix(ln, "(assert (! (forall ") {
				dropped++
				continue
			}
			kept = append(kept, ln)
		}
		if dropped > 0 {
			file2 := filepath.Join(dir, sanitizeFile(q.Ob.Name)+".noax.smt2")
			os.WriteFile(file2, []byte(strings.Join(kept, "\n")+"(get-model)\n"), 0o644)
			st, out, _ := runSolver(ctx, solvers[0], file2, timeoutS)
			if st == "sat" || st == "unsat" {
				// unsat without the axioms is unsat with them
				res.Status, res.Solver = st, solvers[0].name+"(no-axioms)"
				if st == "sat" {
					res.Model = out
				}
				res.TimeS = time.Since(start).Seconds()
				return res
			}
		}
	}
	type r struct{ st, out, name string }
	rctx, cancel := context.WithCancel(ctx)
	defer cancel()
	ch := make(chan r, len(solvers))
	n := 0
	for i, s := range solvers {
		if i == 0 && timeoutS <= t1 {
			continue
		}
		n++
		go func(s solverSpec) {
			st, out, _ := runSolver(rctx, s, file, timeoutS)
			ch <- r{st, out, s.name}
		}(s)
	}
	res.Status = "unknown"
	res.Output = "z3-new: " + firstLines(firstOut, 2) + "\n"
	for i := 0; i < n; i++ {
		x := <-ch
		if x.st == "sat" || x.st == "unsat" {
			res.Status, res.Solver = x.st, x.name
			if x.st == "sat" {
				res.Model = x.out
			}
			cancel()
			break
		}
		res.Output += x.name + ": " + firstLines(x.out, 2) + "\n"
		if x.st == "timeout" && res.Status == "unknown" {
			res.Status = "timeout"
		}
		if x.st == "error" && x.name != "cvc5" {
			// an ill-formed query (a translation bug) must not hide behind "unknown"
			// (cvc5 rejects some z3-only constructs; its errors alone are not conclusive)
			res.Status = "error"
		}
	}
	if res.Status != "sat" && res.Status != "unsat" && q.Focused != "" && timeoutS > 2 {
		if fr := solveFocused(ctx, q, dir, timeoutS, false); fr != nil {
			fr.TimeS = time.Since(start).Seconds()
			return fr
		}
	}
	res.TimeS = time.Since(start).Seconds()
	return res
}

// solveFocused races the solvers on the focused variant of a query; only unsat is reported (nil otherwise).
// With all=true every solver runs to completion and a "sat" from any of them is ignored (it refutes nothing),
// but two solvers must not disagree on the full query, which the caller has already established.
func solveFocused(ctx context.Context, q *Query, dir string, timeoutS int, all bool) *Result {
	file := filepath.Join(dir, sanitizeFile(q.Ob.Name)+".focus.smt2")
	os.WriteFile(file, []byte(q.Focused), 0o644)
	type r struct{ st, name string }
	rctx, cancel := context.WithCancel(ctx)
	defer cancel()
	ch := make(chan r, len(solvers))
	for _, s := range solvers {
		go func(s solverSpec) {
			st, _, _ := runSolver(rctx, s, file, timeoutS)
			ch <- r{st, s.name}
		}(s)
	}
	var names []string
	for range solvers {
		x := <-ch
		if x.st == "unsat" {
			names = append(names, x.name)
			if !all {
				break
			}
		}
	}
	if len(names) == 0 {
		return nil
	}
	return &Result{Ob: q.Ob, File: file, Query: q, Status: "unsat", Solver: strings.Join(names, "+") + "(focused)"}
}

var solverSlots = make(chan struct{}, runtime.NumCPU())

func firstLines(s string, n int) string {
	lines := strings.Split(strings.TrimSpace(s), "\n")
	if len(lines) > n {
		lines = lines[:n]
	}
	return strings.Join(lines, " | ")
}

func sanitizeFile(s string) string {
	r := strings.NewReplacer("/", "__", " ", "_", "*", "p", "(", "", ")", "", "#", "-", "<", "lt", ">", "gt", ":", "_", "|", "_", "\"", "", "'", "")
	s = r.Replace(s)
	if len(s) > 180 {
		s = s[:160] + fmt.Sprint(hashString(s))
	}
	return s
}

// solveAll runs queries on a worker pool.
func solveAll(qs []*Query, dir string, timeoutS int, allSolvers bool, workers int) []*Result {
	results := make([]*Result, len(qs))
	var wg sync.WaitGroup
	idx := make(chan int)
	for w := 0; w < workers; w++ {
		wg.Add(1)
		go func() {
			defer wg.Done()
			for i := range idx {
				results[i] = solveQuery(qs[i], dir, timeoutS, allSolvers)
			}
		}()
	}
	for i := range qs {
		idx <- i
	}
	close(idx)
	wg.Wait()
	return results
}
