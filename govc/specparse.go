package main

import (
	"fmt"
	"go/ast"
	"go/scanner"
	"go/token"
)

// Spec expressions are Go expressions extended with
//   a ==> b            (right associative, lowest precedence)   -> BinaryExpr{Op: token.ARROW}
//   forall x T :: e    / exists x T :: e   (T optional, default int) -> CallExpr{Fun: $forall/$exists, Args: [x, T, e]}
//   old(e)             -> CallExpr{Fun: old}
//   ite(c, a, b)
// parsed into go/ast nodes so that one translator handles code and specs.

type specTok struct {
	tok token.Token
	lit string
	pos int
}

type specParser struct {
	toks []specTok
	p    int
	src  string
}

func parseSpec(src string) (e ast.Expr, err error) {
	defer func() {
		if r := recover(); r != nil {
			err = fmt.Errorf("spec parse error in %q: %v", src, r)
		}
	}()
	fset := token.NewFileSet()
	file := fset.AddFile("spec", -1, len(src))
	var s scanner.Scanner
	s.Init(file, []byte(src), nil, 0)
	sp := &specParser{src: src}
	for {
		pos, tok, lit := s.Scan()
		if tok == token.EOF {
			break
		}
		if tok == token.SEMICOLON && lit == "\n" {
			continue
		}
		sp.toks = append(sp.toks, specTok{tok, lit, int(pos) - file.Base()})
	}
	sp.toks = append(sp.toks, specTok{token.EOF, "", len(src)})
	e = sp.parseExpr(0)
	if sp.peek().tok != token.EOF {
		panic(fmt.Sprintf("unexpected %v %q at %d", sp.peek().tok, sp.peek().lit, sp.peek().pos))
	}
	return e, nil
}

func (sp *specParser) peek() specTok { return sp.toks[sp.p] }
func (sp *specParser) next() specTok { t := sp.toks[sp.p]; sp.p++; return t }
func (sp *specParser) expect(t token.Token) specTok {
	x := sp.next()
	if x.tok != t {
		panic(fmt.Sprintf("expected %v, got %v %q at %d", t, x.tok, x.lit, x.pos))
	}
	return x
}

// isImplies: EQL immediately followed by GTR
func (sp *specParser) isImplies() bool {
	if sp.toks[sp.p].tok == token.EQL && sp.p+1 < len(sp.toks) && sp.toks[sp.p+1].tok == token.GTR &&
		sp.toks[sp.p+1].pos == sp.toks[sp.p].pos+2 {
		return true
	}
	return false
}

func binPrec(t token.Token) int {
	switch t {
	case token.LOR:
		return 1
	case token.LAND:
		return 2
	case token.EQL, token.NEQ, token.LSS, token.LEQ, token.GTR, token.GEQ:
		return 3
	case token.ADD, token.SUB, token.OR, token.XOR:
		return 4
	case token.MUL, token.QUO, token.REM, token.SHL, token.SHR, token.AND, token.AND_NOT:
		return 5
	}
	return -1
}

// parseExpr parses with minimum precedence; precedence 0 includes ==>.
func (sp *specParser) parseExpr(minPrec int) ast.Expr {
	if t := sp.peek(); t.tok == token.IDENT && (t.lit == "forall" || t.lit == "exists") {
		return sp.parseQuant()
	}
	lhs := sp.parseUnary()
	for {
		if sp.isImplies() {
			if minPrec > 0 {
				return lhs
			}
			sp.next()
			sp.next()
			rhs := sp.parseExpr(0)
			return &ast.BinaryExpr{X: lhs, Op: token.ARROW, Y: rhs}
		}
		t := sp.peek()
		prec := binPrec(t.tok)
		if prec < 0 || prec < minPrec || prec == 0 {
			return lhs
		}
		sp.next()
		var rhs ast.Expr
		if q := sp.peek(); q.tok == token.IDENT && (q.lit == "forall" || q.lit == "exists") {
			rhs = sp.parseQuant()
		} else {
			rhs = sp.parseExprPrec(prec + 1)
		}
		lhs = &ast.BinaryExpr{X: lhs, Op: t.tok, Y: rhs}
	}
}

func (sp *specParser) parseExprPrec(minPrec int) ast.Expr {
	if minPrec < 1 {
		minPrec = 1
	}
	lhs := sp.parseUnary()
	for {
		if sp.isImplies() {
			return lhs
		}
		t := sp.peek()
		prec := binPrec(t.tok)
		if prec < minPrec {
			return lhs
		}
		sp.next()
		rhs := sp.parseExprPrec(prec + 1)
		lhs = &ast.BinaryExpr{X: lhs, Op: t.tok, Y: rhs}
	}
}

func (sp *specParser) parseQuant() ast.Expr {
	q := sp.next()
	type bind struct {
		name *ast.Ident
		typ  ast.Expr
	}
	var binds []bind
	var pending []*ast.Ident
	for {
		pending = append(pending, ast.NewIdent(sp.expect(token.IDENT).lit))
		if sp.peek().tok == token.COMMA {
			sp.next()
			continue
		}
		var typ ast.Expr = ast.NewIdent("int")
		if sp.peek().tok != token.COLON {
			typ = sp.parseType()
		}
		for _, n := range pending {
			binds = append(binds, bind{n, typ})
		}
		pending = nil
		if sp.peek().tok == token.COMMA {
			sp.next()
			continue
		}
		break
	}
	sp.expect(token.COLON)
	sp.expect(token.COLON)
	body := sp.parseExpr(0)
	for i := len(binds) - 1; i >= 0; i-- {
		body = &ast.CallExpr{Fun: ast.NewIdent("$" + q.lit), Args: []ast.Expr{binds[i].name, binds[i].typ, body}}
	}
	return body
}

func (sp *specParser) parseType() ast.Expr {
	t := sp.next()
	switch t.tok {
	case token.MUL:
		return &ast.StarExpr{X: sp.parseType()}
	case token.LBRACK:
		sp.expect(token.RBRACK)
		return &ast.ArrayType{Elt: sp.parseType()}
	case token.IDENT:
		var e ast.Expr = ast.NewIdent(t.lit)
		if sp.peek().tok == token.PERIOD {
			sp.next()
			e = &ast.SelectorExpr{X: e, Sel: ast.NewIdent(sp.expect(token.IDENT).lit)}
		}
		return e
	}
	panic(fmt.Sprintf("bad type at %d", t.pos))
}

func (sp *specParser) parseUnary() ast.Expr {
	t := sp.peek()
	switch t.tok {
	case token.NOT, token.SUB, token.ADD, token.XOR:
		sp.next()
		return &ast.UnaryExpr{Op: t.tok, X: sp.parseUnary()}
	case token.MUL:
		sp.next()
		return &ast.StarExpr{X: sp.parseUnary()}
	}
	return sp.parsePrimary()
}

func (sp *specParser) parsePrimary() ast.Expr {
	t := sp.next()
	var e ast.Expr
	switch t.tok {
	case token.IDENT:
		e = ast.NewIdent(t.lit)
	case token.INT, token.FLOAT, token.STRING, token.CHAR:
		e = &ast.BasicLit{Kind: t.tok, Value: t.lit}
	case token.LPAREN:
		inner := sp.parseExpr(0)
		sp.expect(token.RPAREN)
		e = &ast.ParenExpr{X: inner}
	case token.ILLEGAL:
		if t.lit == "$" {
			// $name: hidden variables
			id := sp.expect(token.IDENT)
			e = ast.NewIdent("$" + id.lit)
		} else {
			panic(fmt.Sprintf("illegal token %q at %d", t.lit, t.pos))
		}
	default:
		panic(fmt.Sprintf("unexpected %v %q at %d", t.tok, t.lit, t.pos))
	}
	for {
		switch sp.peek().tok {
		case token.PERIOD:
			sp.next()
			if sp.peek().tok == token.LPAREN {
				sp.next()
				typ := sp.parseType()
				sp.expect(token.RPAREN)
				e = &ast.TypeAssertExpr{X: e, Type: typ}
				continue
			}
			n := sp.next()
			name := n.lit
			if n.tok == token.ILLEGAL && n.lit == "$" {
				name = "$" + sp.expect(token.IDENT).lit
			} else if n.tok != token.IDENT {
				panic(fmt.Sprintf("expected field name at %d", n.pos))
			}
			e = &ast.SelectorExpr{X: e, Sel: ast.NewIdent(name)}
		case token.LBRACK:
			sp.next()
			var lo, hi ast.Expr
			if sp.peek().tok != token.COLON {
				lo = sp.parseExpr(0)
			}
			if sp.peek().tok == token.COLON {
				sp.next()
				if sp.peek().tok != token.RBRACK {
					hi = sp.parseExpr(0)
				}
				sp.expect(token.RBRACK)
				e = &ast.SliceExpr{X: e, Low: lo, High: hi}
			} else {
				sp.expect(token.RBRACK)
				e = &ast.IndexExpr{X: e, Index: lo}
			}
		case token.LPAREN:
			sp.next()
			var args []ast.Expr
			for sp.peek().tok != token.RPAREN {
				args = append(args, sp.parseExpr(0))
				if sp.peek().tok == token.COMMA {
					sp.next()
				}
			}
			sp.expect(token.RPAREN)
			e = &ast.CallExpr{Fun: e, Args: args}
		default:
			return e
		}
	}
}
