package main

import (
	"fmt"
	"go/ast"
	"go/token"
	"go/types"
	"sort"
	"strings"
)

func (l *Lowerer) trCall(ce *ast.CallExpr) (*Term, types.Type) {
	ts, tys := l.call(ce)
	if len(ts) == 0 {
		return IntLit(0), nil
	}
	return ts[0], tys[0]
}

var preludeFuns = map[string]struct {
	n   int
	res string
}{
	"be16": {2, "Int"}, "be32": {2, "Int"}, "be64": {2, "Int"}, "zigzag": {1, "Int"}, "sz_uvarint": {1, "Int"},
	"sz_varint": {1, "Int"}, "wrap8": {1, "Int"}, "wrap16": {1, "Int"}, "wrap32": {1, "Int"}, "wrap64": {1, "Int"},
	"uwrap8": {1, "Int"}, "uwrap16": {1, "Int"}, "uwrap32": {1, "Int"}, "uwrap64": {1, "Int"},
	"tdiv": {2, "Int"}, "trem": {2, "Int"}, "uv_n": {3, "Int"}, "uv_value": {3, "Int"}, "uv_val": {2, "Int"},
	"uv_len": {2, "Int"}, "unzigzag": {1, "Int"}, "rangebound": {3, "Int"}, "rangestep": {2, "Int"},
}

// call lowers a call expression and returns its results.
func (l *Lowerer) call(ce *ast.CallExpr) ([]*Term, []types.Type) {
	fun := ast.Unparen(ce.Fun)
	if l.chanLenTracked && !l.spec {
		pure := false
		if id, ok := fun.(*ast.Ident); ok {
			switch id.Name {
			case "len", "cap", "append", "make", "new", "copy", "delete", "panic", "print", "println", "min", "max":
				if _, isBuiltin := l.fr.fi.Pkg.TypesInfo.Uses[id].(*types.Builtin); isBuiltin {
					pure = true
				}
			}
		}
		if tv, ok := l.fr.fi.Pkg.TypesInfo.Types[ce.Fun]; ok && tv.IsType() {
			pure = true
		}
		if !pure {
			defer l.havocChanLen()
		}
	}
	// --- spec-only forms
	if id, ok := fun.(*ast.Ident); ok {
		switch id.Name {
		case "old":
			if !l.spec {
				break
			}
			saved := l.oldRename
			if l.oldFn != nil {
				l.oldRename = l.oldFn
			}
			t, typ := l.tr(ce.Args[0])
			l.oldRename = saved
			return []*Term{t}, []types.Type{typ}
		case "acq":
			if !l.spec {
				break
			}
			saved := l.oldRename
			l.oldRename = func(name string) string {
				if strings.Contains(name, "@") {
					return name
				}
				return name + "@acq"
			}
			t, typ := l.tr(ce.Args[0])
			l.oldRename = saved
			return []*Term{t}, []types.Type{typ}
		case "$forall", "$exists":
			return l.quant(id.Name[1:], ce)
		case "ite":
			if l.spec {
				c, _ := l.tr(ce.Args[0])
				a, at := l.tr(ce.Args[1])
				b, bt := l.tr(ce.Args[2])
				if isUntyped(at) {
					at = bt
				}
				return []*Term{Ite(c, a, b)}, []types.Type{at}
			}
		case "arr", "off":
			if l.spec {
				s, st := l.tr(ce.Args[0])
				if id.Name == "arr" {
					et := st.Underlying().(*types.Slice).Elem()
					return []*Term{l.p.reg.sArr(s)}, []types.Type{types.NewArray(et, 1<<62)}
				}
				return []*Term{l.p.reg.sOff(s)}, []types.Type{types.Typ[types.Int]}
			}
		case "wgcount":
			if l.spec {
				sel, ok := ast.Unparen(ce.Args[0]).(*ast.SelectorExpr)
				if !ok {
					panic("wgcount expects x.waitGroupField")
				}
				pl := l.placeOfSelector(sel)
				cnt := l.heapVar("F.$wg.count", "Int")
				return []*Term{Select(cnt, l.opaqueAddr(pl))}, []types.Type{types.Typ[types.UntypedInt]}
			}
		case "it":
			if l.spec {
				saved := l.oldRename
				l.oldRename = func(name string) string {
					if strings.Contains(name, "@") {
						return name
					}
					return name + "@it"
				}
				t, typ := l.tr(ce.Args[0])
				l.oldRename = saved
				return []*Term{t}, []types.Type{typ}
			}
		case "fresh":
			if l.spec {
				// allocated during the call / function: not below the allocation counter of the old state
				v, _ := l.tr(ce.Args[0])
				l.f.declare("$alloc", "Int")
				name := "$alloc"
				if l.oldFn != nil {
					name = l.oldFn("$alloc")
					l.f.declare(name, "Int")
				}
				return []*Term{Le(V(name, "Int"), v)}, []types.Type{types.Typ[types.Bool]}
			}
		case "allocated":
			if l.spec {
				v, _ := l.tr(ce.Args[0])
				l.f.declare("$alloc", "Int")
				name := "$alloc"
				if l.oldRename != nil {
					name = l.oldRename("$alloc")
					l.f.declare(name, "Int")
				}
				return []*Term{And(Lt(IntLit(0), v), Lt(v, V(name, "Int")))}, []types.Type{types.Typ[types.Bool]}
			}
		case "sent":
			if l.spec {
				ch, cht := l.tr(ce.Args[0])
				cnt := l.heapVar(chanSentVar(cht), "Int")
				return []*Term{Select(cnt, ch)}, []types.Type{types.Typ[types.UntypedInt]}
			}
		case "lockinv":
			// lockinv(x.lockField, label): the named clause of the monitor invariant of that lock, for object x
			if l.spec && len(ce.Args) == 2 {
				sel, ok := ast.Unparen(ce.Args[0]).(*ast.SelectorExpr)
				lab, ok2 := ce.Args[1].(*ast.Ident)
				if !ok || !ok2 {
					panic("lockinv expects (x.lockField, label)")
				}
				ref, rt := l.tr(sel.X)
				key := l.p.prefixOfType(rt) + namedOf(rt) + "." + sel.Sel.Name
				for _, li := range l.p.lockInvs[key] {
					if li.C.Label != lab.Name {
						continue
					}
					l.pushEnv(map[string]envEntry{li.Self: {ref, rt}})
					t, _ := l.tr(li.C.Expr)
					l.popEnv()
					return []*Term{t}, []types.Type{types.Typ[types.Bool]}
				}
				panic("lockinv: no clause " + lab.Name + " for " + key)
			}
		case "chanclosed":
			// chanclosed(ch): the channel has been closed
			if l.spec && len(ce.Args) == 1 {
				ch, _ := l.tr(ce.Args[0])
				hv := l.heapVar("F.$chan.closed", "Bool")
				return []*Term{Select(hv, ch)}, []types.Type{types.Typ[types.Bool]}
			}
		case "acquired":
			// acquired(): the function has acquired a lock so far (acq(...) is meaningful)
			if l.spec && len(ce.Args) == 0 {
				l.f.declare("$acquired", "Bool")
				return []*Term{V("$acquired", "Bool")}, []types.Type{types.Typ[types.Bool]}
			}
		case "lockheld":
			if l.spec {
				sel, ok := ast.Unparen(ce.Args[0]).(*ast.SelectorExpr)
				if !ok {
					panic("lockheld expects x.lockField")
				}
				pl := l.placeOfSelector(sel)
				held := l.heapVar("F.$lock.held", "Bool")
				return []*Term{Select(held, l.opaqueAddr(pl))}, []types.Type{types.Typ[types.Bool]}
			}
		case "isnil":
			if l.spec {
				s, _ := l.tr(ce.Args[0])
				if strings.HasPrefix(s.Sort, "Slice_") {
					return []*Term{l.p.reg.sNil(s)}, []types.Type{types.Typ[types.Bool]}
				}
				return []*Term{Eq(s, IntLit(0))}, []types.Type{types.Typ[types.Bool]}
			}
		case "dyntype":
			if l.spec {
				s, _ := l.tr(ce.Args[0])
				return []*Term{App("dyntype", "Int", s)}, []types.Type{types.Typ[types.Int]}
			}
		case "implements":
			if l.spec {
				// implements(x, I): the type assertion x.(I) to the interface I succeeds
				s, _ := l.tr(ce.Args[0])
				return []*Term{l.implementsTerm(s, l.specType(ce.Args[1]))}, []types.Type{types.Typ[types.Bool]}
			}
		case "typeid":
			if l.spec {
				return []*Term{l.p.typeID(l.specType(ce.Args[0]))}, []types.Type{types.Typ[types.Int]}
			}
		case "haskey", "mapval", "maplen":
			if l.spec {
				m, mt := l.tr(ce.Args[0])
				mtyp := mt.Underlying().(*types.Map)
				dom, val, card := l.mapVars(mtyp)
				if id.Name == "maplen" {
					return []*Term{Select(card, m)}, []types.Type{types.Typ[types.Int]}
				}
				k, kt := l.tr(ce.Args[1])
				k = l.convertTo(k, kt, mtyp.Key())
				if id.Name == "haskey" {
					return []*Term{Select(Select(dom, m), k)}, []types.Type{types.Typ[types.Bool]}
				}
				return []*Term{Select(Select(val, m), k)}, []types.Type{mtyp.Elem()}
			}
		}
		if (id.Name == "rangebound" || id.Name == "rangestep") && l.spec {
			// real-valued definitions used by the range strategy: declared (with their defining axiom) only in
			// the queries that mention them
			r := l.p.reg
			r.Fun("rangebound", []string{"Int", "Int", "Int"}, "Int")
			r.Axiom("rangebound", "(forall ((i Int) (n Int) (m Int)) (! (= (rangebound i n m) (to_int (+ (* (to_real i) (/ (to_real n) (to_real m))) 0.5))) :pattern ((rangebound i n m))))")
			r.Fun("rangestep", []string{"Int", "Int"}, "Int")
			r.Axiom("rangestep", "(forall ((n Int) (m Int)) (! (= (rangestep n m) (to_int (/ (to_real n) (to_real m)))) :pattern ((rangestep n m))))")
		}
		if pf, ok := preludeFuns[id.Name]; ok && l.spec {
			var args []*Term
			for _, a := range ce.Args {
				t, _ := l.tr(a)
				args = append(args, t)
			}
			if len(args) != pf.n {
				panic("arity of " + id.Name)
			}
			return []*Term{App(id.Name, pf.res, args...)}, []types.Type{types.Typ[types.UntypedInt]}
		}
		if gf, ok := l.p.ghostFuns[id.Name]; ok && l.spec {
			var args []*Term
			for _, a := range ce.Args {
				t, _ := l.tr(a)
				args = append(args, t)
			}
			return []*Term{App("ghost."+id.Name, gf.resSort, args...)}, []types.Type{gf.resType}
		}
	}
	// --- conversions
	if l.spec {
		if t := l.specTypeOrNil(fun); t != nil && len(ce.Args) == 1 {
			v, vt := l.tr(ce.Args[0])
			return []*Term{l.conversion(v, vt, t, ce)}, []types.Type{t}
		}
	} else if tv, ok := l.info().Types[fun]; ok && tv.IsType() {
		v, vt := l.tr(ce.Args[0])
		return []*Term{l.conversion(v, vt, tv.Type, ce)}, []types.Type{tv.Type}
	}
	// --- builtins
	if id, ok := fun.(*ast.Ident); ok {
		var obj types.Object
		if l.spec {
			if _, bound := l.lookupEnv(id.Name); !bound {
				obj = l.lookupName(id.Name)
			}
		} else {
			obj = l.info().ObjectOf(id)
		}
		if _, isB := obj.(*types.Builtin); isB {
			return l.builtin(id.Name, ce)
		}
	}
	// --- immediately invoked literal
	if fl, ok := fun.(*ast.FuncLit); ok && !l.spec {
		fi := l.p.litInfo[fl]
		var args []*Term
		var atys []types.Type
		for _, a := range ce.Args {
			t, ty := l.tr(a)
			args = append(args, t)
			atys = append(atys, ty)
		}
		return l.inline(fi, nil, nil, args, atys, ce, true)
	}
	// --- resolve callee
	var callee *types.Func
	var recv *Term
	var recvTyp types.Type
	switch f := fun.(type) {
	case *ast.Ident:
		if l.spec {
			if _, bound := l.lookupEnv(f.Name); !bound {
				callee, _ = l.lookupName(f.Name).(*types.Func)
			}
		} else {
			callee, _ = l.info().ObjectOf(f).(*types.Func)
		}
	case *ast.SelectorExpr:
		if l.isPkgSel(f) {
			if l.spec {
				pn := l.lookupName(f.X.(*ast.Ident).Name).(*types.PkgName)
				callee, _ = pn.Imported().Scope().Lookup(f.Sel.Name).(*types.Func)
			} else {
				callee, _ = l.info().ObjectOf(f.Sel).(*types.Func)
			}
		} else {
			if l.spec {
				// spec-only pure method defined in the contracts (`define`)
				bt := l.typeOfExpr(f.X)
				if n := namedOf(bt); n != "" {
					obj, _, _ := types.LookupFieldOrMethod(bt, true, l.fr.fi.Pkg.Types, f.Sel.Name)
					if _, isFunc := obj.(*types.Func); !isFunc {
						if ct := l.p.contracts[l.p.prefixOfType(bt)+n+"."+f.Sel.Name]; ct != nil && ct.PureDef != nil {
							r, rt := l.tr(f.X)
							env := map[string]envEntry{ct.RecvName: {r, rt}}
							for i, pn := range ct.Params {
								if i < len(ce.Args) {
									a, at := l.tr(ce.Args[i])
									env[pn] = envEntry{a, at}
								}
							}
							l.pushEnv(env)
							t, tt := l.tr(ct.PureDef.Expr)
							l.popEnv()
							return []*Term{t}, []types.Type{tt}
						}
					}
				}
			}
			recv, recvTyp, callee = l.methodRecv(f)
		}
	}
	if callee == nil {
		return l.callUnknownValue(ce)
	}
	return l.callFunc(callee, recv, recvTyp, ce)
}

// concreteTypeOf: replay search treats packetDecoder parameters as *realDecoder.
func (l *Lowerer) concreteTypeOf(e ast.Expr) types.Type {
	if l.spec {
		return nil
	}
	id, ok := ast.Unparen(e).(*ast.Ident)
	if !ok {
		return nil
	}
	v, ok := l.info().ObjectOf(id).(*types.Var)
	if !ok || v.IsField() {
		return nil
	}
	// an interface parameter of an inlined function whose argument had a concrete static type
	for fr := l.fr; fr != nil; fr = fr.parent {
		if t, ok := fr.concrete[v]; ok {
			return t
		}
	}
	if !l.p.opts.concretePD {
		return nil
	}
	if namedOf(v.Type()) != "packetDecoder" {
		return nil
	}
	if l.fr.parent != nil {
		return nil
	}
	if tn, ok := l.fr.fi.Pkg.Types.Scope().Lookup("realDecoder").(*types.TypeName); ok {
		return types.NewPointer(tn.Type())
	}
	return nil
}

func (l *Lowerer) specTypeOrNil(e ast.Expr) (t types.Type) {
	defer func() {
		if r := recover(); r != nil {
			t = nil
		}
	}()
	switch x := e.(type) {
	case *ast.Ident:
		if _, bound := l.lookupEnv(x.Name); bound {
			return nil
		}
		if tn, ok := l.lookupName(x.Name).(*types.TypeName); ok {
			return tn.Type()
		}
		return nil
	case *ast.ArrayType, *ast.StarExpr:
		return l.specType(e)
	case *ast.ParenExpr:
		return l.specTypeOrNil(x.X)
	}
	return nil
}

// methodRecv evaluates the receiver of a method call x.m(...) and finds the method.
func (l *Lowerer) methodRecv(f *ast.SelectorExpr) (*Term, types.Type, *types.Func) {
	var baseTyp types.Type
	var base *Term
	var basePl *place
	if !l.spec {
		sel := l.info().Selections[f]
		if sel == nil {
			return nil, nil, nil
		}
		if sel.Kind() == types.FieldVal {
			return nil, nil, nil // call of a func-typed field
		}
	}
	// evaluate base lazily: prefer place for value structs
	baseTyp = l.typeOfExpr(f.X)
	if ct := l.concreteTypeOf(f.X); ct != nil {
		baseTyp = ct
	}
	obj, index, _ := types.LookupFieldOrMethod(baseTyp, true, l.fr.fi.Pkg.Types, f.Sel.Name)
	m, ok := obj.(*types.Func)
	if !ok {
		// try through other repo packages (unexported methods of sarama types from mocks never occur)
		return nil, nil, nil
	}
	if st, _ := structOf(baseTyp); st != nil && !isPointer(baseTyp) && !l.p.isOpaqueStruct(baseTyp) {
		basePl = l.placeOfOrTemp(f.X)
	} else if _, isSel := ast.Unparen(f.X).(*ast.SelectorExpr); isSel && l.p.isOpaqueStruct(baseTyp) && !isPointer(baseTyp) && !l.isPkgSel(ast.Unparen(f.X).(*ast.SelectorExpr)) {
		// an opaque struct field (mutex, wait group, once): identified by its address
		basePl = l.placeOfSelector(ast.Unparen(f.X).(*ast.SelectorExpr))
		if basePl == nil {
			base, _ = l.tr(f.X)
		}
	} else {
		base, _ = l.tr(f.X)
	}
	// walk embedded fields
	curTyp := baseTyp
	for _, i := range index[:len(index)-1] {
		st, _ := structOf(curTyp)
		fld := st.Field(i)
		if isPointer(curTyp) {
			_, stt := structOf(curTyp)
			if base == nil {
				base = l.load(basePl)
			}
			basePl = &place{kind: pHeap, ref: base, owner: l.p.structName(stt), path: fld.Name(), typ: fld.Type()}
			base = nil
		} else {
			if basePl == nil {
				tn := l.tmp(base.Sort)
				l.assign(tn, base.Sort, base)
				basePl = &place{kind: pLocal, name: tn, typ: curTyp}
				base = nil
			}
			basePl = l.descend(basePl, []*types.Var{fld})
		}
		curTyp = fld.Type()
	}
	sig := m.Type().(*types.Signature)
	wantPtr := sig.Recv() != nil && isPointer(sig.Recv().Type())
	_, isIface := curTyp.Underlying().(*types.Interface)
	if isIface || l.p.isOpaqueStruct(curTyp) || (isPointer(curTyp) && l.p.isOpaqueStruct(curTyp.Underlying().(*types.Pointer).Elem())) {
		if base == nil && basePl != nil {
			if l.p.isOpaqueStruct(curTyp) {
				// address of an opaque struct field (e.g. a mutex): identify it by a stable term
				base = l.opaqueAddr(basePl)
			} else {
				base = l.load(basePl)
			}
		}
		return base, curTyp, m
	}
	if isPointer(curTyp) {
		if base == nil {
			base = l.load(basePl)
		}
		if !wantPtr {
			// value receiver called through pointer: pass the struct value
			_, stt := structOf(curTyp)
			pl := &place{kind: pHeap, ref: base, owner: l.p.structName(stt), path: "", typ: stt}
			return l.load(pl), stt, m
		}
		return base, curTyp, m
	}
	// value of named type
	if wantPtr {
		if st, _ := structOf(curTyp); st != nil {
			if basePl != nil && basePl.kind == pHeap && basePl.path == "" {
				return basePl.ref, types.NewPointer(curTyp), m
			}
			// address of a value struct stored inside another object (or in a slice/map element):
			// copy-in / copy-out through a temporary object. Sound as long as the callee does not
			// retain the pointer (true of the decode/encode helpers this is used for).
			if basePl != nil {
				_, stt := structOf(curTyp)
				owner := l.p.structName(stt)
				r := l.alloc()
				tmpPl := &place{kind: pHeap, ref: r, owner: owner, path: "", typ: stt}
				l.emit(&Stmt{Kind: SAllocZero, Struct: owner, Ref: r})
				l.store(tmpPl, l.load(basePl))
				src := basePl
				l.afterCall = append(l.afterCall, func() {
					l.store(src, l.load(tmpPl))
				})
				l.note("A-addr: pointer-receiver call on a nested value struct is modelled by copy-in/copy-out")
				return r, types.NewPointer(curTyp), m
			}
			return nil, curTyp, m
		}
		// pointer receiver on non-struct named value (e.g. *KError) – rare
		if base == nil {
			base = l.load(basePl)
		}
		return base, curTyp, m
	}
	if base == nil {
		base = l.load(basePl)
	}
	return base, curTyp, m
}

// opaqueAddr gives a stable integer identity to the address of an opaque struct stored at a place.
func (l *Lowerer) opaqueAddr(pl *place) *Term {
	switch pl.kind {
	case pHeap:
		name := "addr." + pl.owner + "." + pl.path
		l.p.reg.Fun(name, []string{"Int"}, "Int")
		return App(name, "Int", pl.ref)
	case pLocal:
		name := "addrl." + pl.name
		l.p.reg.Fun(name, nil, "Int")
		return App(name, "Int")
	}
	return l.freshVal(types.NewPointer(pl.typ))
}

func (l *Lowerer) conversion(v *Term, from, to types.Type, node ast.Node) *Term {
	to = types.Unalias(to)
	if from != nil {
		from = types.Unalias(from)
	}
	ts := l.p.sortOf(to)
	if _, toIface := to.Underlying().(*types.Interface); toIface {
		return l.convertTo(v, from, to)
	}
	switch {
	case ts == "Int" && v.Sort == "Int":
		if w := wrapFn(to); w != "" {
			if isUntyped(from) {
				return v
			}
			// widening conversions need no wrap
			if flo, fhi, ok := intRange(from); ok {
				tlo, thi, _ := intRange(to)
				if rangeWithin(flo, fhi, tlo, thi) {
					return v
				}
			}
			return App(w, "Int", v)
		}
		return v
	case ts == "Int" && v.Sort == "Real":
		if v.Op == "to_real" && len(v.Args) == 1 && v.Args[0].Sort == "Int" {
			// the conversion of an integral real (e.g. the result of math.Floor) is that integer
			l.note("A-float: floating point arithmetic treated as real arithmetic")
			return v.Args[0]
		}
		l.p.reg.Fun("real2int", []string{"Real"}, "Int")
		r := App("real2int", "Int", v)
		// truncation toward zero
		l.assume(Ite(App(">=", "Bool", v, Lit("0.0", "Real")),
			And(App("<=", "Bool", App("to_real", "Real", r), v), App("<", "Bool", v, App("+", "Real", App("to_real", "Real", r), Lit("1.0", "Real")))),
			And(App(">=", "Bool", App("to_real", "Real", r), v), App(">", "Bool", v, App("-", "Real", App("to_real", "Real", r), Lit("1.0", "Real"))))))
		l.note("A-float: floating point arithmetic treated as real arithmetic")
		return r
	case ts == "Real" && v.Sort == "Int":
		return App("to_real", "Real", v)
	case ts == "Str" && strings.HasPrefix(v.Sort, "Slice_"):
		l.p.reg.Fun("bytes2str", []string{v.Sort}, "Str")
		s := App("bytes2str", "Str", v)
		l.assume(Eq(App("strlen", "Int", s), l.p.reg.sLen(v)))
		return s
	case strings.HasPrefix(ts, "Slice_") && v.Sort == "Str":
		l.p.reg.Fun("str2bytes", []string{"Str"}, ts)
		s := App("str2bytes", ts, v)
		r := l.p.reg
		l.assume(And(Eq(r.sLen(s), App("strlen", "Int", v)), Le(r.sLen(s), r.sCap(s)), Eq(r.sOff(s), IntLit(0)), Not(r.sNil(s))))
		return s
	case ts == "Str" && v.Sort == "Int":
		l.p.reg.Fun("rune2str", []string{"Int"}, "Str")
		return App("rune2str", "Str", v)
	case ts == v.Sort:
		return v
	}
	l.unsupported(node, "conversion "+v.Sort+" -> "+ts)
	return l.freshVal(to)
}

func rangeWithin(flo, fhi, tlo, thi string) bool {
	p := func(s string) string { return s }
	_ = p
	a, _ := litInt(Lit(flo, "Int"))
	b, _ := litInt(Lit(fhi, "Int"))
	c, _ := litInt(Lit(tlo, "Int"))
	d, _ := litInt(Lit(thi, "Int"))
	return a.Cmp(c) >= 0 && b.Cmp(d) <= 0
}

func (l *Lowerer) quant(q string, ce *ast.CallExpr) ([]*Term, []types.Type) {
	name := ce.Args[0].(*ast.Ident).Name
	typ := l.specType(ce.Args[1])
	l.quantN++
	bn := fmt.Sprintf("%s!%d", name, l.quantN)
	bv := &Term{Op: "bound", Name: bn, Sort: l.p.sortOf(typ)}
	l.pushEnv(map[string]envEntry{name: {bv, typ}})
	savedGuard := l.guard
	l.guard = nil
	body, _ := l.tr(ce.Args[2])
	l.guard = savedGuard
	l.popEnv()
	// typing facts for bound integers
	if lo, hi, ok := intRange(typ); ok && typ != types.Typ[types.UntypedInt] {
		rng := And(App("<=", "Bool", Lit(lo, "Int"), bv), App("<=", "Bool", bv, Lit(hi, "Int")))
		if b, isB := typ.(*types.Basic); isB && b.Kind() == types.Int {
			rng = tTrue // plain int quantifiers range over mathematical integers
		}
		if q == "forall" {
			body = Implies(rng, body)
		} else {
			body = And(rng, body)
		}
	}
	return []*Term{{Op: q, Args: []*Term{bv, body}, Sort: "Bool"}}, []types.Type{types.Typ[types.Bool]}
}

// ---------------------------------------------------------------------------
// builtins

func (l *Lowerer) builtin(name string, ce *ast.CallExpr) ([]*Term, []types.Type) {
	tInt := types.Typ[types.Int]
	switch name {
	case "len", "cap":
		v, vt := l.tr(ce.Args[0])
		switch u := vt.Underlying().(type) {
		case *types.Slice:
			if name == "len" {
				return []*Term{l.p.reg.sLen(v)}, []types.Type{tInt}
			}
			return []*Term{l.p.reg.sCap(v)}, []types.Type{tInt}
		case *types.Basic:
			return []*Term{App("strlen", "Int", v)}, []types.Type{tInt}
		case *types.Array:
			return []*Term{IntLit(u.Len())}, []types.Type{tInt}
		case *types.Map:
			dom, _, card := l.mapVars(u)
			c := Select(card, v)
			r := Ite(Eq(v, IntLit(0)), IntLit(0), c)
			if !l.spec {
				l.assume(Le(IntLit(0), c))
				// a map has no entries exactly when its key set is empty
				ks := arraySort(l.p.sortOf(u.Key()), "Bool")
				l.assume(Eq(Eq(c, IntLit(0)), Eq(Select(dom, v), App("(as const "+ks+")", ks, tFalse))))
			}
			return []*Term{r}, []types.Type{tInt}
		case *types.Chan:
			if name == "cap" {
				cv := l.heapVar("F.$chan.cap", "Int")
				return []*Term{Select(cv, v)}, []types.Type{tInt}
			}
			if l.chanLenTracked {
				// A-chanlen: the length of a channel does not change between two reads that no call and no channel
				// operation of this function separates (the pseudo field is havocked at every call, send, receive,
				// select and close)
				cl := l.heapVar("F.$chan.len", "Int")
				t := Select(cl, v)
				l.assume(Le(IntLit(0), t))
				l.note("A-chanlen: len(ch) is stable between two reads that no call or channel operation separates")
				return []*Term{t}, []types.Type{tInt}
			}
			l.p.reg.Fun("chanlen", []string{"Int", "Int"}, "Int")
			t := l.freshVal(tInt)
			l.assume(Le(IntLit(0), t))
			return []*Term{t}, []types.Type{tInt}
		case *types.Pointer:
			if a, ok := u.Elem().Underlying().(*types.Array); ok {
				return []*Term{IntLit(a.Len())}, []types.Type{tInt}
			}
		}
	case "append":
		if !l.spec {
			env := map[string]envEntry{}
			l.callSiteNamed("append", env, ce)
			after := l.afterCall
			l.afterCall = nil
			res, tys := l.appendCall(ce)
			for _, f := range after {
				f()
			}
			return res, tys
		}
		return l.appendCall(ce)
	case "copy":
		return l.copyCall(ce)
	case "make":
		return l.makeCall(ce)
	case "new":
		typ := l.typeOf(ce)
		elem := typ.Underlying().(*types.Pointer).Elem()
		r := l.alloc()
		if st, stt := structOf(elem); st != nil && !l.p.isOpaqueStruct(elem) {
			l.emit(&Stmt{Kind: SAllocZero, Struct: l.p.structName(stt), Ref: r})
		} else {
			l.store(&place{kind: pDeref, ref: r, typ: elem}, l.p.zeroOf(elem))
		}
		return []*Term{r}, []types.Type{typ}
	case "delete":
		m, mt := l.tr(ce.Args[0])
		mtyp := mt.Underlying().(*types.Map)
		k, kt := l.tr(ce.Args[1])
		k = l.convertTo(k, kt, mtyp.Key())
		dom, _, card := l.mapVars(mtyp)
		had := Select(Select(dom, m), k)
		l.assign(card.Name, card.Sort, Store(card, m, Sub(Select(card, m), Ite(had, IntLit(1), IntLit(0)))))
		l.assign(dom.Name, dom.Sort, Store(dom, m, Store(Select(dom, m), k, tFalse)))
		return nil, nil
	case "panic":
		for _, a := range ce.Args {
			l.tr(a)
		}
		if ct := l.fr.contract; ct != nil && ct.NoPanic != "" && l.fr.parent == nil {
			l.assertOb("ensures", ct.NoPanic, "nopanic: "+l.exprText(ce)+" is not reachable", ce, tFalse, l.curProps)
		}
		l.safety("panic", l.exprText(ce), ce, tFalse)
		l.assume(tFalse)
		return nil, nil
	case "close":
		ch, cht := l.tr(ce.Args[0])
		if !l.spec {
			// call-site clauses: "close" for every close, "close.<field or variable>" for the channel closed
			env := map[string]envEntry{"$channel": {ch, cht}}
			l.callSiteNamed("close", env, ce)
			switch x := ast.Unparen(ce.Args[0]).(type) {
			case *ast.SelectorExpr:
				l.callSiteNamed("close."+x.Sel.Name, env, ce)
			case *ast.Ident:
				l.callSiteNamed("close."+x.Name, env, ce)
			}
		}
		l.chanClose(ch, ce.Args[0], ce)
		return nil, nil
	case "print", "println":
		return nil, nil
	case "recover":
		t := l.typeOf(ce)
		return []*Term{l.freshVal(t)}, []types.Type{t}
	case "min", "max":
		a, at := l.tr(ce.Args[0])
		for _, e := range ce.Args[1:] {
			b, _ := l.tr(e)
			if name == "min" {
				a = Ite(Le(a, b), a, b)
			} else {
				a = Ite(Le(a, b), b, a)
			}
		}
		return []*Term{a}, []types.Type{at}
	}
	l.unsupported(ce, "builtin "+name)
	t := l.typeOf(ce)
	if t == nil {
		return nil, nil
	}
	return []*Term{l.freshVal(t)}, []types.Type{t}
}

// allocBound returns the "in proportion to the input" bound for make() lengths when a decoder is in scope.
func (l *Lowerer) allocBound() *Term {
	if l.decoderRemaining != nil {
		return l.decoderRemaining()
	}
	return nil
}

func (l *Lowerer) makeCall(ce *ast.CallExpr) ([]*Term, []types.Type) {
	typ := l.typeOf(ce)
	switch u := typ.Underlying().(type) {
	case *types.Slice:
		var n, c *Term
		n, _ = l.tr(ce.Args[1])
		c = n
		if len(ce.Args) > 2 {
			c, _ = l.tr(ce.Args[2])
		}
		l.safety("make", l.exprText(ce), ce, And(Le(IntLit(0), n), Le(n, c)))
		if b := l.allocBound(); b != nil {
			l.safety("make-bound", l.exprText(ce), ce, Le(c, b))
		}
		ss := l.p.sortOf(typ)
		es := l.p.sortOf(u.Elem())
		as := arraySort("Int", es)
		arr := App("(as const "+as+")", as, l.p.zeroOf(u.Elem()))
		return []*Term{l.p.reg.sMk(ss, arr, IntLit(0), n, c, tFalse)}, []types.Type{typ}
	case *types.Map:
		if len(ce.Args) > 1 {
			n, _ := l.tr(ce.Args[1])
			if b := l.allocBound(); b != nil {
				l.safety("make-bound", l.exprText(ce), ce, Le(n, b))
			}
		}
		r := l.alloc()
		dom, val, card := l.mapVars(u)
		ks := l.p.sortOf(u.Key())
		l.assign(dom.Name, dom.Sort, Store(dom, r, App("(as const "+arraySort(ks, "Bool")+")", arraySort(ks, "Bool"), tFalse)))
		_ = val
		l.assign(card.Name, card.Sort, Store(card, r, IntLit(0)))
		return []*Term{r}, []types.Type{typ}
	case *types.Chan:
		capT := IntLit(0)
		for i, a := range ce.Args[1:] {
			t, _ := l.tr(a)
			if i == 0 {
				capT = t
			}
		}
		r := l.alloc()
		// the capacity of a channel is fixed when it is made (ghost field read by cap(ch))
		cv := l.heapVar("F.$chan.cap", "Int")
		l.assign(cv.Name, cv.Sort, Store(cv, r, capT))
		return []*Term{r}, []types.Type{typ}
	}
	l.unsupported(ce, "make")
	return []*Term{l.freshVal(typ)}, []types.Type{typ}
}

func (l *Lowerer) appendCall(ce *ast.CallExpr) ([]*Term, []types.Type) {
	s, st := l.tr(ce.Args[0])
	if l.spec {
		st = l.typeOfExpr(ce.Args[0])
	}
	if isUntypedNil(st) {
		st = l.typeOf(ce)
		s = l.p.zeroOf(st)
	}
	sl := st.Underlying().(*types.Slice)
	r := l.p.reg
	ss := l.p.sortOf(st)
	es := l.p.sortOf(sl.Elem())
	as := arraySort("Int", es)
	// the result is represented with offset 0 over a new array that agrees with s on the old prefix
	// (A-slice-alias: sharing of the backing array with s is not modelled)
	base := l.tmp(as)
	l.havoc(base, as)
	bt := V(base, as)
	capv := l.tmp("Int")
	l.havoc(capv, "Int")
	n := r.sLen(s)
	l.quantN++
	bv := &Term{Op: "bound", Name: fmt.Sprintf("ai!%d", l.quantN), Sort: "Int"}
	l.assume(&Term{Op: "forall", Sort: "Bool", Args: []*Term{bv,
		Implies(And(Le(IntLit(0), bv), Lt(bv, n)), Eq(Select(bt, bv), r.sIndex(s, bv)))}})
	var newLen *Term
	cur := bt
	if ce.Ellipsis.IsValid() {
		x, _ := l.tr(ce.Args[1])
		var xlen *Term
		if x.Sort == "Str" {
			xlen = App("strlen", "Int", x)
		} else {
			xlen = r.sLen(x)
		}
		newLen = Add(n, xlen)
		if x.Sort != "Str" {
			l.quantN++
			bv2 := &Term{Op: "bound", Name: fmt.Sprintf("ai!%d", l.quantN), Sort: "Int"}
			// stated over the result index so that the result element is the trigger
			l.assume(&Term{Op: "forall", Sort: "Bool", Args: []*Term{bv2,
				Implies(And(Le(n, bv2), Lt(bv2, Add(n, xlen))), Eq(Select(bt, bv2), r.sIndex(x, Sub(bv2, n))))}})
		}
	} else {
		k := len(ce.Args) - 1
		newLen = Add(n, IntLit(int64(k)))
		for i, a := range ce.Args[1:] {
			v, vt := l.tr(a)
			v = l.convertTo(v, vt, sl.Elem())
			cur = Store(cur, Add(n, IntLit(int64(i))), v)
		}
	}
	lenv := l.tmp("Int")
	l.assign(lenv, "Int", newLen)
	l.assume(And(Le(V(lenv, "Int"), V(capv, "Int")), Le(V(capv, "Int"), IntPow2(56))))
	isnil := And(r.sNil(s), Eq(V(lenv, "Int"), IntLit(0)))
	rv := r.sMk(ss, cur, IntLit(0), V(lenv, "Int"), V(capv, "Int"), isnil)
	return []*Term{rv}, []types.Type{st}
}

func (l *Lowerer) copyCall(ce *ast.CallExpr) ([]*Term, []types.Type) {
	dstPl := l.slicePlace(ce.Args[0])
	src, _ := l.tr(ce.Args[1])
	r := l.p.reg
	var srcLen *Term
	if src.Sort == "Str" {
		srcLen = App("strlen", "Int", src)
	} else {
		srcLen = r.sLen(src)
	}
	if dstPl == nil {
		l.unsupported(ce, "copy into non-lvalue slice")
		t := l.freshVal(types.Typ[types.Int])
		return []*Term{t}, []types.Type{types.Typ[types.Int]}
	}
	d := dstPl.view
	n := Ite(Le(r.sLen(d), srcLen), r.sLen(d), srcLen)
	// new backing array: positions [off, off+n) take src, others unchanged
	as := r.sArr(dstPl.whole).Sort
	na := l.tmp(as)
	l.havoc(na, as)
	nat := V(na, as)
	l.quantN++
	bv := &Term{Op: "bound", Name: fmt.Sprintf("ci!%d", l.quantN), Sort: "Int"}
	var srcAt *Term
	if src.Sort == "Str" {
		l.p.reg.Fun("strbyte", []string{"Str", "Int"}, "Int")
		srcAt = App("strbyte", "Int", src, Sub(bv, r.sOff(d)))
	} else {
		srcAt = r.sIndex(src, Sub(bv, r.sOff(d)))
	}
	inside := And(Le(r.sOff(d), bv), Lt(bv, Add(r.sOff(d), n)))
	l.assume(&Term{Op: "forall", Sort: "Bool", Args: []*Term{bv,
		Eq(Select(nat, bv), Ite(inside, srcAt, Select(r.sArr(dstPl.whole), bv)))}})
	w := dstPl.whole
	l.store(dstPl.pl, r.sMk(w.Sort, nat, r.sOff(w), r.sLen(w), r.sCap(w), r.sNil(w)))
	return []*Term{n}, []types.Type{types.Typ[types.Int]}
}

// sliceLV describes a slice-valued lvalue possibly viewed through slice expressions:
// whole is the value stored at pl, view the sub-slice designated by the expression.
type sliceLV struct {
	pl    *place
	whole *Term
	view  *Term
}

func (l *Lowerer) slicePlace(e ast.Expr) *sliceLV {
	switch x := ast.Unparen(e).(type) {
	case *ast.SliceExpr:
		inner := l.slicePlace(x.X)
		if inner == nil {
			return nil
		}
		r := l.p.reg
		b := inner.view
		lo := IntLit(0)
		if x.Low != nil {
			lo, _ = l.tr(x.Low)
		}
		hi := r.sLen(b)
		if x.High != nil {
			hi, _ = l.tr(x.High)
		}
		l.safety("slice", l.exprText(x), x, And(Le(IntLit(0), lo), Le(lo, hi), Le(hi, r.sCap(b))))
		v := r.sMk(b.Sort, r.sArr(b), Add(r.sOff(b), lo), Sub(hi, lo), Sub(r.sCap(b), lo), tFalse)
		return &sliceLV{pl: inner.pl, whole: inner.whole, view: v}
	case *ast.Ident, *ast.SelectorExpr, *ast.IndexExpr:
		if sel, ok := x.(*ast.SelectorExpr); ok && l.isPkgSel(sel) {
			return nil
		}
		t := l.typeOf(e)
		if _, ok := t.Underlying().(*types.Slice); !ok {
			return nil
		}
		pl := l.placeOf(e)
		w := l.load(pl)
		return &sliceLV{pl: pl, whole: w, view: w}
	}
	return nil
}

// ---------------------------------------------------------------------------
// calls of functions and methods

func (l *Lowerer) evalArgs(ce *ast.CallExpr, sig *types.Signature) ([]*Term, []types.Type) {
	var args []*Term
	var atys []types.Type
	// f(g()) with multi-value g
	if len(ce.Args) == 1 && sig != nil && sig.Params().Len() > 1 {
		if inner, ok := ast.Unparen(ce.Args[0]).(*ast.CallExpr); ok {
			ts, tys := l.call(inner)
			return ts, tys
		}
	}
	np := 0
	if sig != nil {
		np = sig.Params().Len()
	}
	for i, a := range ce.Args {
		t, ty := l.tr(a)
		if ct := l.concreteTypeOf(a); ct != nil {
			ty = ct
		}
		if sig != nil {
			var pt types.Type
			if sig.Variadic() && i >= np-1 {
				pt = sig.Params().At(np - 1).Type()
				if !ce.Ellipsis.IsValid() {
					pt = pt.(*types.Slice).Elem()
				}
			} else if i < np {
				pt = sig.Params().At(i).Type()
			}
			if pt != nil {
				t = l.convertTo(t, ty, pt)
				if _, isIface := pt.Underlying().(*types.Interface); !isIface || ty == nil {
					ty = pt
				} else if _, argIface := ty.Underlying().(*types.Interface); argIface {
					ty = pt
				}
				// keep the static (concrete) type for interface parameters: specs resolve pure methods on it
			}
		}
		args = append(args, t)
		atys = append(atys, ty)
	}
	return args, atys
}

func (l *Lowerer) callFunc(callee *types.Func, recv *Term, recvTyp types.Type, ce *ast.CallExpr) ([]*Term, []types.Type) {
	after := l.afterCall
	l.afterCall = nil
	ts, tys := l.callFunc1(callee, recv, recvTyp, ce)
	after = append(after, l.afterCall...)
	l.afterCall = nil
	l.lastResults, l.lastResultTypes = ts, tys
	for _, f := range after {
		f()
	}
	l.lastResults, l.lastResultTypes = nil, nil
	return ts, tys
}

// callSiteClauses: obligations the enclosing function's contract attaches to calls of `callee`.
func (l *Lowerer) callSiteClauses(callee *types.Func, recv *Term, recvTyp types.Type, args []*Term, atys []types.Type, ce *ast.CallExpr) {
	top := l.fr
	for top.parent != nil {
		top = top.parent
	}
	if top.contract == nil || top.contract.CallSites == nil || l.spec {
		return
	}
	// a call site can be named by the bare callee name, by "pkg.name" (package-level function) or by
	// "Type.name" (method)
	names := []string{callee.Name()}
	if csig := callee.Type().(*types.Signature); csig.Recv() == nil {
		names = append(names, "pkg."+callee.Name())
	} else if n := namedOf(csig.Recv().Type()); n != "" {
		names = append(names, n+"."+callee.Name())
	}
	any := false
	for _, n := range names {
		if top.contract.hasCallSite(n) {
			any = true
		}
	}
	if !any {
		return
	}
	sig := callee.Type().(*types.Signature)
	env := map[string]envEntry{}
	if sig.Recv() != nil && recv != nil {
		env["$recv"] = envEntry{recv, recvTyp}
		if n := sig.Recv().Name(); n != "" && n != "_" {
			env["$"+n] = envEntry{recv, recvTyp}
		}
	}
	for i := 0; i < len(args) && i < len(atys); i++ {
		// every argument is $arg<i> (the arguments of a variadic call are passed one by one); the named
		// parameters are also available as $<name>
		env[fmt.Sprintf("$arg%d", i)] = envEntry{args[i], atys[i]}
		if i < sig.Params().Len() {
			if n := sig.Params().At(i).Name(); n != "" && n != "_" {
				env["$"+n] = envEntry{args[i], atys[i]}
			}
		}
	}
	for _, n := range names {
		if top.contract.hasCallSite(n) {
			l.callSiteNamed(n, env, ce)
		}
	}
}

// callSiteNamed: obligations (before) and ghost effects (registered to run after) that the enclosing
// function's contract attaches to an operation: a call of `name`, or a channel send "send.<field>".
func (l *Lowerer) callSiteNamed(name string, env map[string]envEntry, ce ast.Node) {
	top := l.fr
	for top.parent != nil {
		top = top.parent
	}
	if top.contract == nil || l.spec {
		return
	}
	// "name#k" selects the k-th occurrence (in lowering order) of the operation in this function
	ord := l.siteOrd[name]
	l.siteOrd[name] = ord + 1
	cls := append([]*Clause{}, top.contract.CallSites[name]...)
	cls = append(cls, top.contract.CallSites[fmt.Sprintf("%s#%d", name, ord)]...)
	for _, c := range cls {
		if c.Kind != "callsite-requires" {
			continue
		}
		savedPos := l.specPos
		l.specPos = ce.Pos()
		t := l.specTerm(c, env)
		l.specPos = savedPos
		lbl := name
		if c.Label != "" {
			lbl += "." + c.Label
		}
		l.assertOb("callsite", lbl, "at every "+name+": "+c.Src, ce, t, clausePropsOr(l.fr, c, l.curProps))
	}
	// ghost effects attached to the call: applied after it
	var effs []*Clause
	for _, c := range cls {
		if c.Kind == "callsite-effect" {
			effs = append(effs, c)
		}
	}
	mods := append([]string{}, top.contract.CallSiteMods[name]...)
	mods = append(mods, top.contract.CallSiteMods[fmt.Sprintf("%s#%d", name, ord)]...)
	if len(effs) == 0 && len(mods) == 0 {
		return
	}
	l.afterCall = append(l.afterCall, func() {
		if l.cur == nil {
			return
		}
		// the results of the call: $result (the first) and $result<k>
		for i, r := range l.lastResults {
			if i < len(l.lastResultTypes) && r != nil {
				env[fmt.Sprintf("$result%d", i)] = envEntry{r, l.lastResultTypes[i]}
				if i == 0 {
					env["$result"] = envEntry{r, l.lastResultTypes[i]}
				}
			}
		}
		savedPos := l.specPos
		l.specPos = ce.Pos()
		l.callSnap++
		suffix := fmt.Sprintf("@c%d", l.callSnap)
		snapped := map[string]bool{}
		oldFn := func(name string) string {
			if strings.Contains(name, "@") {
				return name
			}
			snapped[name] = true
			return name + suffix
		}
		snapBlock, snapIdx := l.cur, len(l.cur.Stmts)
		savedSpec := l.spec
		l.spec = true
		l.pushEnv(env)
		for _, m := range mods {
			l.havocItem(m, ce)
		}
		l.popEnv()
		l.spec = savedSpec
		for _, c := range effs {
			l.assume(l.clauseTerm(c, env, oldFn))
		}
		l.specPos = savedPos
		if len(snapped) > 0 {
			var names []string
			for n := range snapped {
				names = append(names, n)
			}
			sort.Strings(names)
			var ins []*Stmt
			for _, n := range names {
				srt := l.f.Vars[n]
				l.f.declare(n+suffix, srt)
				ins = append(ins, &Stmt{Kind: SAssign, Var: n + suffix, Sort: srt, E: V(n, srt)})
			}
			st := append([]*Stmt{}, snapBlock.Stmts[:snapIdx]...)
			st = append(st, ins...)
			st = append(st, snapBlock.Stmts[snapIdx:]...)
			snapBlock.Stmts = st
		}
	})
}

func (l *Lowerer) callFunc1(callee *types.Func, recv *Term, recvTyp types.Type, ce *ast.CallExpr) ([]*Term, []types.Type) {
	sig := callee.Type().(*types.Signature)
	fi := l.p.funcByObj[callee]
	if fi == nil && callee.Origin() != callee {
		fi = l.p.funcByObj[callee.Origin()]
	}
	resTypes := tupleTypes(sig.Results())
	// spec mode: only pure functions
	if l.spec {
		if fi == nil {
			panic(fmt.Sprintf("%s: call of %s in a spec", l.fnKey, callee.FullName()))
		}
		args, atys := l.evalArgs(ce, sig)
		return l.pureCall(fi, recv, recvTyp, args, atys, ce), resTypes
	}
	if recv == nil && sig.Recv() != nil && recvTyp != nil {
		// receiver could not be evaluated (address of value struct)
		l.unsupported(ce, "method call on value struct receiver "+callee.FullName())
		l.evalArgs(ce, sig)
		l.emit(&Stmt{Kind: SHavocAll, Note: "unsupported receiver"})
		l.havocEscaped()
		return l.freshResults(resTypes), resTypes
	}
	args, atys := l.evalArgs(ce, sig)
	l.callSiteClauses(callee, recv, recvTyp, args, atys, ce)
	if fi == nil {
		return l.externalCall(callee, recv, recvTyp, args, atys, ce), resTypes
	}
	// f(a, b, c) for a variadic f(x, rest ...T): the callee sees the slice []T{b, c} (nil when empty)
	if sig.Variadic() && !ce.Ellipsis.IsValid() {
		np := sig.Params().Len()
		if len(args) >= np-1 {
			st := sig.Params().At(np - 1).Type()
			ss := l.p.sortOf(st)
			rest := args[np-1:]
			r := l.p.reg
			var packed *Term
			if len(rest) == 0 {
				packed = l.p.zeroOf(st)
			} else {
				es := l.p.sortOf(st.(*types.Slice).Elem())
				an := l.tmp(arraySort("Int", es))
				l.havoc(an, arraySort("Int", es))
				arr := V(an, arraySort("Int", es))
				for k, a := range rest {
					l.assume(Eq(Select(arr, IntLit(int64(k))), a))
				}
				n := IntLit(int64(len(rest)))
				packed = r.sMk(ss, arr, IntLit(0), n, n, tFalse)
			}
			args = append(append([]*Term{}, args[:np-1]...), packed)
			atys = append(append([]types.Type{}, atys[:np-1]...), st)
		}
	}
	// interface method: dispatch on the contract of the interface, or of the concrete static type
	key := fi.Key
	if fi.Iface != nil && recvTyp != nil {
		if _, isIface := recvTyp.Underlying().(*types.Interface); !isIface {
			// static type is concrete
			if n := namedOf(recvTyp); n != "" {
				if cfi := l.p.funcs[l.p.keyPrefix(fi.Pkg)+n+"."+callee.Name()]; cfi != nil {
					fi, key = cfi, cfi.Key
				}
			}
		}
	}
	if ct := l.p.contractFor(fi); ct != nil {
		if ct.Pure && fi.Body != nil && !ct.Trusted && ct.PureDef == nil && len(ct.Ensures) == 0 {
			return l.inline(fi, recv, recvTyp, args, atys, ce, false)
		}
		if ct.InlineCalls && fi.Body != nil && l.canInline(fi) {
			return l.inline(fi, recv, recvTyp, args, atys, ce, false)
		}
		if ct.Pure && fi.Iface != nil && len(ct.Ensures) == 0 {
			// abstract pure method of an interface: its value is the abstract state
			saved := l.spec
			l.spec = true
			res := l.pureCall(fi, recv, recvTyp, args, atys, ce)
			l.spec = saved
			for i, r := range res {
				l.wf(r, resTypes[i])
			}
			return res, resTypes
		}
		return l.callContract(ct, fi, recv, recvTyp, args, atys, ce), resTypes
	}
	_ = key
	if fi.Body != nil && l.canInline(fi) {
		return l.inline(fi, recv, recvTyp, args, atys, ce, false)
	}
	// no contract, not inlinable: havoc by syntactic mod-set
	l.note("havoc-call: " + fi.Key + " (no contract; effects over-approximated by its syntactic mod-set)")
	ms := l.p.modset(fi)
	l.emit(&Stmt{Kind: SHavocSet, Set: ms, Note: "call " + fi.Key})
	l.bumpAlloc()
	l.havocEscaped()
	return l.freshResults(resTypes), resTypes
}

func tupleTypes(t *types.Tuple) []types.Type {
	var out []types.Type
	for i := 0; i < t.Len(); i++ {
		out = append(out, t.At(i).Type())
	}
	return out
}

func (l *Lowerer) freshResults(ts []types.Type) []*Term {
	var out []*Term
	for _, t := range ts {
		out = append(out, l.freshVal(t))
	}
	return out
}

func (l *Lowerer) bumpAlloc() {
	l.f.declare("$alloc", "Int")
	t := l.tmp("Int")
	l.assign(t, "Int", V("$alloc", "Int"))
	l.havoc("$alloc", "Int")
	l.assume(Le(V(t, "Int"), V("$alloc", "Int")))
}

// havocChanLen: any call or channel operation may change the length of any channel.
func (l *Lowerer) havocChanLen() {
	if !l.chanLenTracked || l.cur == nil {
		return
	}
	s := arraySort("Int", "Int")
	l.f.declare("F.$chan.len", s)
	l.f.HeapVars["F.$chan.len"] = true
	l.emit(&Stmt{Kind: SHavoc, Var: "F.$chan.len", Sort: s, Note: "chanlen"})
}

func (l *Lowerer) havocEscaped() {
	var names []string
	for v := range l.escaped {
		names = append(names, v)
	}
	sort.Strings(names)
	for _, v := range names {
		l.emit(&Stmt{Kind: SHavoc, Var: v, Sort: l.f.Vars[v], Note: "escaped"})
	}
	if len(l.escapedHeap) > 0 {
		set := map[string]bool{}
		for k := range l.escapedHeap {
			set[k] = true
		}
		l.emit(&Stmt{Kind: SHavocSet, Set: set, Note: "escaped closure"})
	}
}

func (l *Lowerer) canInline(fi *FuncInfo) bool {
	if l.fr.depth >= 3 {
		return false
	}
	for _, k := range l.inlineStack {
		if k == fi.Key {
			return false
		}
	}
	if fi.Key == l.fnKey {
		return false
	}
	// size limit
	n := 0
	ast.Inspect(fi.Body, func(ast.Node) bool { n++; return true })
	return n < 400
}

// callUnknownValue: call through a function value (variable, field, parameter).
func (l *Lowerer) callUnknownValue(ce *ast.CallExpr) ([]*Term, []types.Type) {
	if l.spec {
		panic(fmt.Sprintf("%s: call of function value in spec: %s", l.fnKey, l.exprText(ce)))
	}
	ft := l.typeOf(ce.Fun)
	sig, _ := ft.Underlying().(*types.Signature)
	fv, _ := l.tr(ce.Fun)
	args, atys := l.evalArgs(ce, sig)
	var resTypes []types.Type
	if sig != nil {
		resTypes = tupleTypes(sig.Results())
	}
	// a function-typed parameter, variable or field with a callspec in the contract (named by the identifier,
	// or by the field name of a selector: x.f(...) -> "<function>.f")
	fvName := ""
	switch fx := ast.Unparen(ce.Fun).(type) {
	case *ast.Ident:
		fvName = fx.Name
	case *ast.SelectorExpr:
		fvName = fx.Sel.Name
	}
	if fvName != "" && l.fr.parent == nil {
		if cs := l.p.contracts[l.fnKey+"."+fvName]; cs != nil {
			fi := &FuncInfo{Key: cs.Key, Pkg: l.fr.fi.Pkg, Sig: sig}
			return l.callContract(cs, fi, fv, ft, args, atys, ce), resTypes
		}
	}
	l.note("havoc-call: function value " + l.exprText(ce.Fun))
	l.emit(&Stmt{Kind: SHavocAll, Note: "call of function value"})
	l.bumpAlloc()
	l.havocEscaped()
	return l.freshResults(resTypes), resTypes
}

// pureCall: a call inside a spec. The callee must be pure: its definition is the contract's
// `define` clause, its single-return body, or an abstract state variable (interface methods).
func (l *Lowerer) pureCall(fi *FuncInfo, recv *Term, recvTyp types.Type, args []*Term, atys []types.Type, node ast.Node) []*Term {
	// resolve interface method on concrete static type
	if fi.Iface != nil && recvTyp != nil {
		if _, isIface := recvTyp.Underlying().(*types.Interface); !isIface {
			if n := namedOf(recvTyp); n != "" {
				if cfi := l.p.funcs[l.p.keyPrefix(fi.Pkg)+n+"."+fi.Obj.Name()]; cfi != nil {
					fi = cfi
				}
			}
		}
	}
	ct := l.p.contractFor(fi)
	resTypes := tupleTypes(fi.Sig.Results())
	if fi.Iface != nil {
		// abstract state: A.<Iface>.<method>[recv]
		if len(resTypes) != 1 {
			panic("abstract pure method must have one result: " + fi.Key)
		}
		hv := l.heapVar("F."+fi.IfaceName+".$"+fi.Obj.Name(), l.p.sortOf(resTypes[0]))
		res := Select(hv, recv)
		// coupling: for a receiver whose dynamic type is a repository implementation with a pure
		// definition, the abstract state is that definition
		if sigRecv := fi.Obj.Type().(*types.Signature).Recv(); sigRecv != nil {
			impls := l.p.implementers(sigRecv.Type())
			if len(impls) <= 2 {
				for _, it := range impls {
					n := namedOf(it)
					cfi := l.p.funcs[l.p.keyPrefix(fi.Pkg)+n+"."+fi.Obj.Name()]
					if cfi == nil || cfi.Body == nil {
						continue
					}
					if cct := l.p.contracts[cfi.Key]; cct == nil || !cct.Pure {
						continue
					}
					conc := l.pureCall(cfi, recv, it, args, atys, node)
					res = Ite(And(Not(Eq(recv, IntLit(0))), Eq(App("dyntype", "Int", recv), l.p.typeID(it))), conc[0], res)
				}
			}
		}
		return []*Term{res}
	}
	env := map[string]envEntry{}
	l.bindParams(env, ct, fi, recv, recvTyp, args, atys)
	if ct != nil && ct.PureDef != nil {
		l.pushEnv(env)
		savedFr := l.fr
		l.fr = &frame{fi: fi, prefix: "", objVar: map[types.Object]string{}, parent: nil}
		t, _ := l.tr(ct.PureDef.Expr)
		l.fr = savedFr
		l.popEnv()
		return []*Term{t}
	}
	// single return statement body
	if fi.Body != nil && len(fi.Body.List) == 1 {
		if rs, ok := fi.Body.List[0].(*ast.ReturnStmt); ok && len(rs.Results) == 1 {
			// bind real parameter names too
			l.bindRealNames(env, fi, recv, recvTyp, args, atys)
			l.pushEnv(env)
			savedFr := l.fr
			l.fr = &frame{fi: fi, prefix: "", objVar: map[types.Object]string{}}
			t, _ := l.tr(rs.Results[0])
			l.fr = savedFr
			l.popEnv()
			return []*Term{t}
		}
	}
	panic(fmt.Sprintf("%s: %s is not usable as a pure function in specs", l.fnKey, fi.Key))
}

func (l *Lowerer) bindRealNames(env map[string]envEntry, fi *FuncInfo, recv *Term, recvTyp types.Type, args []*Term, atys []types.Type) {
	if fi.Sig.Recv() != nil && recv != nil && fi.Sig.Recv().Name() != "" {
		env[fi.Sig.Recv().Name()] = envEntry{recv, recvTyp}
	}
	for i := 0; i < fi.Sig.Params().Len() && i < len(args); i++ {
		if n := fi.Sig.Params().At(i).Name(); n != "" && n != "_" {
			env[n] = envEntry{args[i], atys[i]}
		}
	}
}

func (l *Lowerer) bindParams(env map[string]envEntry, ct *Contract, fi *FuncInfo, recv *Term, recvTyp types.Type, args []*Term, atys []types.Type) {
	l.bindRealNames(env, fi, recv, recvTyp, args, atys)
	for _, c := range l.p.contractChain(ct) {
		if c.RecvName != "" && recv != nil {
			env[c.RecvName] = envEntry{recv, recvTyp}
		}
		for i, n := range c.Params {
			if i < len(args) && n != "_" && n != "" {
				env[n] = envEntry{args[i], atys[i]}
			}
		}
	}
}

func (p *Prog) contractFor(fi *FuncInfo) *Contract {
	if fi == nil {
		return nil
	}
	if ct := p.contracts[fi.Key]; ct != nil {
		return ct
	}
	return p.autoContract(fi)
}

// ---------------------------------------------------------------------------
// modular call: assert requires, havoc modifies, assume ensures

func (l *Lowerer) callContract(ct *Contract, fi *FuncInfo, recv *Term, recvTyp types.Type, args []*Term, atys []types.Type, node ast.Node) []*Term {
	resTypes := tupleTypes(fi.Sig.Results())
	// freeze arguments
	freeze := func(t *Term) *Term {
		if t == nil || t.Op == "lit" {
			return t
		}
		n := l.tmp(t.Sort)
		l.assign(n, t.Sort, t)
		return V(n, t.Sort)
	}
	recv = freeze(recv)
	for i := range args {
		args[i] = freeze(args[i])
	}
	env := map[string]envEntry{}
	l.bindParams(env, ct, fi, recv, recvTyp, args, atys)
	// inherited clauses (refines)
	reqs, enss, effs := l.p.allClauses(ct)

	savedSpec, savedFr := l.spec, l.fr
	specFrame := &frame{fi: fi, prefix: "", objVar: map[types.Object]string{}}
	if fi.Body == nil && fi.Iface == nil && fi.Lit == nil {
		specFrame.fi = l.fr.fi
	}
	// requires
	l.pushEnv(env)
	for _, c := range reqs {
		l.spec, l.fr = true, specFrame
		l.oldFn = nil
		t, _ := l.tr(c.Expr)
		l.spec, l.fr = savedSpec, savedFr
		lbl := fi.Key
		if c.Label != "" {
			lbl += "." + c.Label
		}
		l.assertOb("pre", lbl, "precondition of "+fi.Key+": "+c.Src, node, t, nil)
	}
	l.popEnv()
	// results
	results := l.freshResultsNoWf(resTypes)
	// snapshot point
	snapBlock := l.cur
	snapIdx := 0
	if l.cur != nil {
		snapIdx = len(l.cur.Stmts)
	}
	l.callSnap++
	suffix := fmt.Sprintf("@c%d", l.callSnap)
	snapped := map[string]bool{}
	oldFn := func(name string) string {
		if strings.Contains(name, "@") {
			return name
		}
		snapped[name] = true
		return name + suffix
	}
	// havoc
	if !ct.Pure {
		l.pushEnv(env)
		l.spec, l.fr = true, specFrame
		l.havocModifies(ct, fi, node)
		l.spec, l.fr = savedSpec, savedFr
		l.popEnv()
		l.bumpAlloc()
		l.havocEscaped()
	}
	for i, r := range results {
		l.wf(r, resTypes[i])
	}
	// ensures
	for _, c := range l.p.contractChain(ct) {
		for i, n := range c.Returns {
			if i < len(results) {
				env[n] = envEntry{results[i], resTypes[i]}
			}
		}
	}
	for i := 0; i < fi.Sig.Results().Len(); i++ {
		if n := fi.Sig.Results().At(i).Name(); n != "" && n != "_" {
			if _, dup := env[n]; !dup {
				env[n] = envEntry{results[i], resTypes[i]}
			}
		}
		env[fmt.Sprintf("$r%d", i)] = envEntry{results[i], resTypes[i]}
	}
	l.pushEnv(env)
	for _, c := range append(append([]*Clause{}, enss...), effs...) {
		l.spec, l.fr = true, specFrame
		l.oldFn = oldFn
		t, _ := l.tr(c.Expr)
		l.oldFn = nil
		l.spec, l.fr = savedSpec, savedFr
		l.assume(t)
	}
	l.popEnv()
	// insert snapshots
	if snapBlock != nil && len(snapped) > 0 {
		var names []string
		for n := range snapped {
			names = append(names, n)
		}
		sort.Strings(names)
		var ins []*Stmt
		for _, n := range names {
			s := l.f.Vars[n]
			l.f.declare(n+suffix, s)
			ins = append(ins, &Stmt{Kind: SAssign, Var: n + suffix, Sort: s, E: V(n, s)})
		}
		st := append([]*Stmt{}, snapBlock.Stmts[:snapIdx]...)
		st = append(st, ins...)
		st = append(st, snapBlock.Stmts[snapIdx:]...)
		snapBlock.Stmts = st
	}
	// a function literal handed to a callee whose contract specifies the callback (<callee>.<param>) is called by that
	// callee only (its body is verified against that callback contract) and is not retained: once the call has
	// returned, the variables the literal captures are no longer exposed to later calls
	if ce, ok := node.(*ast.CallExpr); ok && fi.Sig != nil {
		for i, a := range ce.Args {
			fl, ok := ast.Unparen(a).(*ast.FuncLit)
			if !ok || i >= fi.Sig.Params().Len() || l.p.litInfo[fl] == nil {
				continue
			}
			if l.p.contracts[fi.Key+"."+fi.Sig.Params().At(i).Name()] == nil {
				continue
			}
			l.note("A-callback: " + fi.Key + " calls the function literal it is given and does not retain it")
			saved, savedHeap := l.escaped, l.escapedHeap
			l.escaped, l.escapedHeap = map[string]bool{}, map[string]bool{}
			l.recordEscape(l.p.litInfo[fl])
			for k := range l.escaped {
				delete(saved, k)
			}
			for k := range l.escapedHeap {
				delete(savedHeap, k)
			}
			l.escaped, l.escapedHeap = saved, savedHeap
		}
	}
	return results
}

func (l *Lowerer) freshResultsNoWf(ts []types.Type) []*Term {
	var out []*Term
	for _, t := range ts {
		s := l.p.sortOf(t)
		n := l.tmp(s)
		l.havoc(n, s)
		out = append(out, V(n, s))
	}
	return out
}

// allClauses returns the clauses of a contract including those of the contract it refines.
func (p *Prog) allClauses(ct *Contract) (reqs, enss, effs []*Clause) {
	seen := map[*Contract]bool{}
	for c := ct; c != nil && !seen[c]; {
		seen[c] = true
		reqs = append(reqs, c.Requires...)
		enss = append(enss, c.Ensures...)
		effs = append(effs, c.Effects...)
		if c.Refines == "" {
			break
		}
		c = p.contracts[c.Refines]
	}
	return
}

// decoderArgs: the names (in the contract's environment) of the packetDecoder parameters of a function.
func (l *Lowerer) decoderArgs(fi *FuncInfo) []string {
	var out []string
	if fi.Sig == nil {
		return nil
	}
	ct := l.p.contractFor(fi)
	for i := 0; i < fi.Sig.Params().Len(); i++ {
		pt := fi.Sig.Params().At(i).Type()
		if n := namedOf(pt); n == "packetDecoder" || n == "realDecoder" {
			name := fi.Sig.Params().At(i).Name()
			if ct != nil && i < len(ct.Params) && ct.Params[i] != "" && ct.Params[i] != "_" {
				name = ct.Params[i]
			}
			out = append(out, name)
		}
	}
	return out
}

// havocModifies applies the frame of a contract at a call site (spec mode, env bound).
func (l *Lowerer) havocModifies(ct *Contract, fi *FuncInfo, node ast.Node) {
	mods, has := l.p.allModifies(ct)
	if ct.Auto || ct.DecoderFrame {
		// everything but decoder state: the syntactic mod-set (field granularity, sound by construction);
		// decoder state (abstract packetDecoder state and the realDecoder fields): only at the decoders passed
		// in (checked by the callee's frame obligations); decoders created by the callee are new objects
		ms := map[string]bool{}
		for k := range l.p.modset(fi) {
			ms[k] = true
		}
		ms["$nodecoderstate"] = true
		l.emit(&Stmt{Kind: SHavocSet, Set: ms, Note: "call " + fi.Key + " (syntactic mod-set, decoder state excepted)"})
		for _, pdt := range l.decoderArgs(fi) {
			if en, ok := l.lookupEnv(pdt); ok {
				l.emit(&Stmt{Kind: SHavocObj, Struct: "packetDecoder", Ref: en.t, Note: "decoder state"})
				l.emit(&Stmt{Kind: SHavocObj, Struct: "realDecoder", Ref: en.t, Note: "decoder state"})
			}
		}
		return
	}
	if !has {
		if fi.Body != nil {
			ms := l.p.modset(fi)
			l.emit(&Stmt{Kind: SHavocSet, Set: ms, Note: "call " + fi.Key + " (syntactic mod-set)"})
		} else {
			l.emit(&Stmt{Kind: SHavocAll, Note: "call " + fi.Key + " (no modifies clause)"})
		}
		return
	}
	for _, m := range mods {
		l.havocItem(m, node)
	}
}

func (p *Prog) allModifies(ct *Contract) ([]string, bool) {
	var out []string
	has := false
	seen := map[*Contract]bool{}
	for c := ct; c != nil && !seen[c]; {
		seen[c] = true
		if c.HasModifies {
			// the most specific modifies clause wins (an implementation states its own, finer frame)
			return c.Modifies, true
		}
		if c.Refines == "" {
			break
		}
		c = p.contracts[c.Refines]
	}
	return out, has
}

// modItem is a parsed modifies item.
type modItem struct {
	all     bool
	maps    bool
	heapVar string // whole heap variable
	ref     *Term  // object
	strct   string // all fields of this struct at ref
	iface   types.Type
}

func (l *Lowerer) parseModItem(m string) []modItem {
	m = strings.TrimSpace(m)
	switch m {
	case "*":
		return []modItem{{all: true}}
	case "maps":
		return []modItem{{maps: true}}
	case "":
		return nil
	case "$wg":
		l.heapVar("F.$wg.count", "Int")
		return []modItem{{heapVar: "F.$wg.count"}}
	case "$chanclosed":
		l.heapVar("F.$chan.closed", "Bool")
		return []modItem{{heapVar: "F.$chan.closed"}}
	}
	if strings.HasPrefix(m, "maps(") && strings.HasSuffix(m, ")") {
		// every map of the static type of the expression and, transitively, of its element types
		// (e.g. maps(r.records) for map[string]map[int32]Records: both levels, no other map type)
		e, err := parseSpec(strings.TrimSuffix(strings.TrimPrefix(m, "maps("), ")"))
		if err != nil {
			panic(err)
		}
		_, typ := l.tr(e)
		var out []modItem
		for {
			mt, ok := typ.Underlying().(*types.Map)
			if !ok {
				break
			}
			dom, val, card := l.mapVarsPlain(mt)
			out = append(out, modItem{heapVar: dom}, modItem{heapVar: val}, modItem{heapVar: card})
			typ = mt.Elem()
		}
		if len(out) == 0 {
			panic("modifies " + m + ": not a map")
		}
		return out
	}
	if strings.HasPrefix(m, "map:") {
		// the contents of one map object
		e, err := parseSpec(strings.TrimPrefix(m, "map:"))
		if err != nil {
			panic(err)
		}
		t, typ := l.tr(e)
		mt, ok := typ.Underlying().(*types.Map)
		if !ok {
			panic("modifies " + m + ": not a map")
		}
		dom, val, card := l.mapVarsPlain(mt)
		return []modItem{{ref: t, heapVar: dom}, {ref: t, heapVar: val}, {ref: t, heapVar: card}}
	}
	if strings.HasSuffix(m, ".*") {
		base := strings.TrimSuffix(m, ".*")
		e, err := parseSpec(base)
		if err != nil {
			panic(err)
		}
		t, typ := l.tr(e)
		if _, isIface := typ.Underlying().(*types.Interface); isIface {
			var out []modItem
			out = append(out, modItem{ref: t, strct: namedOf(typ)})
			for _, it := range l.p.implementers(typ) {
				if st, stt := structOf(it); st != nil {
					out = append(out, modItem{ref: t, strct: l.p.structName(stt)})
				}
			}
			return out
		}
		_, stt := structOf(typ)
		if stt == nil {
			panic("modifies " + m + ": not a struct reference")
		}
		return []modItem{{ref: t, strct: l.p.structName(stt)}}
	}
	e, err := parseSpec(m)
	if err != nil {
		panic(err)
	}
	// Type.field : whole heap variable
	if sel, ok := e.(*ast.SelectorExpr); ok {
		if id, ok := sel.X.(*ast.Ident); ok {
			if _, bound := l.lookupEnv(id.Name); !bound {
				if tn, ok := l.lookupName(id.Name).(*types.TypeName); ok {
					if _, isIface := tn.Type().Underlying().(*types.Interface); isIface {
						return []modItem{{heapVar: "F." + l.p.structName(tn.Type()) + ".$" + sel.Sel.Name}}
					}
					// field path
					path, ghost, ok := l.findField(tn.Type(), sel.Sel.Name)
					if !ok {
						panic("modifies " + m + ": no such field")
					}
					if ghost != nil {
						return []modItem{{heapVar: "F." + l.p.structName(tn.Type()) + "." + sel.Sel.Name}}
					}
					return []modItem{{heapVar: "F." + l.p.structName(tn.Type()) + "." + path[0].Name()}}
				}
			}
		}
		// abstract interface state x.method
		_, bt := l.tr(sel.X)
		if _, isIface := bt.Underlying().(*types.Interface); isIface {
			r, _ := l.tr(sel.X)
			return []modItem{{ref: r, heapVar: "F." + namedOf(bt) + ".$" + sel.Sel.Name}}
		}
	}
	pl := l.placeOfSpec(e)
	switch pl.kind {
	case pHeap:
		if st, _ := structOf(pl.typ); st != nil && !isPointer(pl.typ) && !l.p.isOpaqueStruct(pl.typ) {
			// nested value struct: all sub-fields
			var out []modItem
			l.flattenPaths(pl.owner, pl.path, pl.typ, func(hv string) {
				out = append(out, modItem{ref: pl.ref, heapVar: hv})
			})
			return out
		}
		hvn := l.fieldHeapName(pl.owner, pl.path)
		saved := l.oldRename
		l.oldRename = nil
		l.heapVar(hvn, l.p.sortOf(pl.typ))
		l.oldRename = saved
		l.p.heapVarTypes[hvn] = pl.typ
		return []modItem{{ref: pl.ref, heapVar: hvn}}
	case pMap:
		return []modItem{{maps: true}}
	case pLocal:
		if strings.HasPrefix(pl.name, "g.") {
			return []modItem{{heapVar: pl.name}}
		}
	case pDeref:
		return []modItem{{ref: pl.ref, heapVar: "F.$deref." + sortIdent(l.p.sortOf(pl.typ))}}
	}
	panic("modifies " + m + ": unsupported item")
}

func (l *Lowerer) flattenPaths(owner, path string, t types.Type, f func(string)) {
	if st, _ := structOf(t); st != nil && !isPointer(t) && !l.p.isOpaqueStruct(t) {
		for i := 0; i < st.NumFields(); i++ {
			l.flattenPaths(owner, joinPath(path, st.Field(i).Name()), st.Field(i).Type(), f)
		}
		return
	}
	hv := l.heapVar(l.fieldHeapName(owner, path), l.p.sortOf(t))
	f(hv.Name)
}

func (l *Lowerer) placeOfSpec(e ast.Expr) *place {
	switch x := e.(type) {
	case *ast.SelectorExpr:
		pl := l.placeOfSelector(x)
		if pl == nil {
			panic("not a field: " + x.Sel.Name)
		}
		return pl
	case *ast.IndexExpr:
		return l.placeOf(x)
	case *ast.Ident:
		return l.placeOf(x)
	case *ast.StarExpr:
		return l.placeOf(x)
	}
	panic(fmt.Sprintf("modifies item %T", e))
}

func (l *Lowerer) havocItem(m string, node ast.Node) {
	for _, it := range l.parseModItem(m) {
		switch {
		case it.all:
			l.emit(&Stmt{Kind: SHavocAll, Note: "modifies *"})
		case it.maps:
			set := map[string]bool{}
			for hv := range l.f.HeapVars {
				if strings.HasPrefix(hv, "M.") {
					set[hv] = true
				}
			}
			l.mapsHavocked = true
			_ = set
			l.emit(&Stmt{Kind: SHavocSet, Set: map[string]bool{"M.*": true}, Note: "modifies maps"})
		case it.heapVar != "" && it.ref != nil:
			s := l.f.Vars[it.heapVar]
			if s == "" {
				l.unsupported(node, "modifies item names an undeclared heap variable "+it.heapVar)
				continue
			}
			es := arrayElemSort(s)
			tn := l.tmp(es)
			l.havoc(tn, es)
			l.assign(it.heapVar, s, Store(V(it.heapVar, s), it.ref, V(tn, es)))
		case it.heapVar != "":
			if s := l.f.Vars[it.heapVar]; s != "" {
				l.emit(&Stmt{Kind: SHavoc, Var: it.heapVar, Sort: s, Note: "modifies"})
			} else {
				l.emit(&Stmt{Kind: SHavocSet, Set: map[string]bool{it.heapVar: true}, Note: "modifies"})
			}
		case it.strct != "":
			l.emit(&Stmt{Kind: SHavocObj, Struct: it.strct, Ref: it.ref, Note: "modifies " + m})
		}
	}
}

// ---------------------------------------------------------------------------
// inlining

func (l *Lowerer) inline(fi *FuncInfo, recv *Term, recvTyp types.Type, args []*Term, atys []types.Type, node ast.Node, sharedScope bool) ([]*Term, []types.Type) {
	resTypes := tupleTypes(fi.Sig.Results())
	if l.cur == nil {
		return l.freshResults(resTypes), resTypes
	}
	l.inlN++
	fr := &frame{fi: fi, prefix: fmt.Sprintf("i%d.", l.inlN), objVar: map[types.Object]string{}, parent: l.fr, depth: l.fr.depth + 1}
	if sharedScope {
		fr.depth = l.fr.depth
	}
	info := fi.Pkg.TypesInfo
	// bind receiver and parameters
	var recvObj *types.Var
	var paramFields *ast.FieldList
	var resultFields *ast.FieldList
	if fi.Decl != nil {
		if fi.Decl.Recv != nil && len(fi.Decl.Recv.List) > 0 && len(fi.Decl.Recv.List[0].Names) > 0 {
			recvObj, _ = info.Defs[fi.Decl.Recv.List[0].Names[0]].(*types.Var)
		}
		paramFields = fi.Decl.Type.Params
		resultFields = fi.Decl.Type.Results
	} else {
		paramFields = fi.Lit.Type.Params
		resultFields = fi.Lit.Type.Results
	}
	saved := l.fr
	l.fr = fr
	l.inlineStack = append(l.inlineStack, fi.Key)
	if recvObj != nil && recv != nil {
		name := l.localVar(recvObj)
		if recv.Sort != l.f.Vars[name] {
			// value receiver given a reference or vice versa: unsupported
			l.unsupported(node, "receiver kind mismatch inlining "+fi.Key)
			l.havoc(name, l.f.Vars[name])
		} else {
			l.assign(name, recv.Sort, recv)
		}
	}
	i := 0
	if paramFields != nil {
		for _, f := range paramFields.List {
			if len(f.Names) == 0 {
				i++
				continue
			}
			for _, nm := range f.Names {
				obj, _ := info.Defs[nm].(*types.Var)
				if obj != nil && nm.Name != "_" {
					name := l.localVar(obj)
					s := l.f.Vars[name]
					switch {
					case fi.Sig.Variadic() && i == fi.Sig.Params().Len()-1 && !(len(args) == i+1 && args[i].Sort == s):
						// pack variadic arguments
						l.havoc(name, s)
						r := l.p.reg
						vv := V(name, s)
						l.assume(And(Eq(r.sLen(vv), IntLit(int64(len(args)-i))), Eq(r.sOff(vv), IntLit(0)), Le(r.sLen(vv), r.sCap(vv))))
						for k := i; k < len(args); k++ {
							l.assume(Eq(r.sIndex(vv, IntLit(int64(k-i))), args[k]))
						}
					case i < len(args) && args[i].Sort == s:
						l.assign(name, s, args[i])
						if i < len(atys) && atys[i] != nil {
							if _, pIface := obj.Type().Underlying().(*types.Interface); pIface {
								if _, aIface := atys[i].Underlying().(*types.Interface); !aIface && namedOf(atys[i]) != "" {
									if fr.concrete == nil {
										fr.concrete = map[types.Object]types.Type{}
									}
									fr.concrete[obj] = atys[i]
								}
							}
						}
					default:
						l.havoc(name, s)
					}
				}
				i++
			}
		}
	}
	// results
	if resultFields != nil {
		k := 0
		for _, f := range resultFields.List {
			if len(f.Names) == 0 {
				n := fmt.Sprintf("%s$res%d", fr.prefix, k)
				l.f.declare(n, l.p.sortOf(resTypes[k]))
				fr.results = append(fr.results, n)
				k++
				continue
			}
			for _, nm := range f.Names {
				obj, _ := info.Defs[nm].(*types.Var)
				var n string
				if obj != nil && nm.Name != "_" {
					n = l.localVar(obj)
				} else {
					n = fmt.Sprintf("%s$res%d", fr.prefix, k)
					l.f.declare(n, l.p.sortOf(resTypes[k]))
				}
				l.assign(n, l.f.Vars[n], l.p.zeroOf(resTypes[k]))
				fr.results = append(fr.results, n)
				k++
			}
		}
	}
	fr.resTypes = resTypes
	l.initDeferGuards(fr, fi.Body)
	fr.retBlock = l.f.newBlock("ret." + fi.Key)
	savedTg, savedLabels := l.tg, l.labels
	l.tg, l.labels = nil, map[string]*Block{}
	l.block(fi.Body)
	if l.cur != nil {
		l.jump(fr.retBlock)
	}
	l.cur = fr.retBlock
	l.runDefers(fr)
	l.tg, l.labels = savedTg, savedLabels
	l.fr = saved
	l.inlineStack = l.inlineStack[:len(l.inlineStack)-1]
	var out []*Term
	for k, n := range fr.results {
		out = append(out, V(n, l.p.sortOf(resTypes[k])))
	}
	return out, resTypes
}

// ---------------------------------------------------------------------------
// external (non-repo) functions

func (l *Lowerer) externalCall(callee *types.Func, recv *Term, recvTyp types.Type, args []*Term, atys []types.Type, ce *ast.CallExpr) []*Term {
	sig := callee.Type().(*types.Signature)
	resTypes := tupleTypes(sig.Results())
	full := callee.FullName()
	r := l.p.reg
	switch full {
	case "(encoding/binary.bigEndian).Uint16", "(encoding/binary.bigEndian).Uint32", "(encoding/binary.bigEndian).Uint64":
		n := map[string]int64{"Uint16": 2, "Uint32": 4, "Uint64": 8}[callee.Name()]
		b := args[0]
		l.safety("index", "binary.BigEndian."+callee.Name()+" needs "+fmt.Sprint(n)+" bytes: "+l.exprText(ce), ce, Le(IntLit(n), r.sLen(b)))
		fn := map[int64]string{2: "be16", 4: "be32", 8: "be64"}[n]
		v := App(fn, "Int", r.sArr(b), r.sOff(b))
		// bytes are in range, so the value is in the unsigned range
		for k := int64(0); k < n; k++ {
			e := r.sIndex(b, IntLit(k))
			l.assume(And(Le(IntLit(0), e), Le(e, IntLit(255))))
		}
		return []*Term{v}
	case "(encoding/binary.bigEndian).PutUint16", "(encoding/binary.bigEndian).PutUint32", "(encoding/binary.bigEndian).PutUint64":
		n := map[string]int{"PutUint16": 2, "PutUint32": 4, "PutUint64": 8}[callee.Name()]
		lv := l.slicePlace(ce.Args[0])
		if lv == nil {
			break
		}
		d := lv.view
		l.safety("index", "binary.BigEndian."+callee.Name()+" needs "+fmt.Sprint(n)+" bytes: "+l.exprText(ce), ce, Le(IntLit(int64(n)), r.sLen(d)))
		arr := r.sArr(lv.whole)
		v := args[1]
		for k := 0; k < n; k++ {
			shift := IntPow2(8 * (n - 1 - k))
			byteK := App("mod", "Int", App("div", "Int", v, shift), IntLit(256))
			arr = Store(arr, Add(r.sOff(d), IntLit(int64(k))), byteK)
		}
		w := lv.whole
		l.store(lv.pl, r.sMk(w.Sort, arr, r.sOff(w), r.sLen(w), r.sCap(w), r.sNil(w)))
		return nil
	case "encoding/binary.Varint", "encoding/binary.Uvarint":
		// exact semantics of the standard library functions (T-stdlib), as define-funs uv_n / uv_value
		// over the first ten bytes of the buffer
		b := args[0]
		n := App("uv_n", "Int", r.sArr(b), r.sOff(b), r.sLen(b))
		uval := App("uv_value", "Int", r.sArr(b), r.sOff(b), r.sLen(b))
		for k := int64(0); k < 10; k++ {
			e := r.sIndex(b, IntLit(k))
			l.assume(Implies(Lt(IntLit(k), r.sLen(b)), And(Le(IntLit(0), e), Le(e, IntLit(255)))))
		}
		nv := l.tmp("Int")
		l.assign(nv, "Int", n)
		vv := l.tmp("Int")
		if callee.Name() == "Varint" {
			l.assign(vv, "Int", App("unzigzag", "Int", uval))
		} else {
			l.assign(vv, "Int", uval)
		}
		sz := "sz_uvarint"
		if callee.Name() == "Varint" {
			sz = "sz_varint"
		}
		// derived facts that help the solver (consequences of the definitions)
		l.assume(Implies(Lt(IntLit(0), V(nv, "Int")), Le(App(sz, "Int", V(vv, "Int")), V(nv, "Int"))))
		l.wf(V(vv, "Int"), resTypes[0])
		l.note("T-stdlib: encoding/binary.Varint/Uvarint modelled exactly (define-funs uv_n, uv_value over the first ten bytes)")
		return []*Term{V(vv, "Int"), V(nv, "Int")}
	case "encoding/binary.PutVarint", "encoding/binary.PutUvarint":
		lv := l.slicePlace(ce.Args[0])
		sz := "sz_uvarint"
		if callee.Name() == "PutVarint" {
			sz = "sz_varint"
		}
		n := App(sz, "Int", args[1])
		if lv == nil {
			// scratch buffer (e.g. a local array): only the length written matters
			l.safety("index", "binary."+callee.Name()+" needs sz bytes: "+l.exprText(ce), ce, Le(n, r.sLen(args[0])))
			l.note("T-stdlib: encoding/binary.PutVarint/PutUvarint return the encoded size sz_(u)varint(v)")
			return []*Term{n}
		}
		d := lv.view
		l.safety("index", "binary."+callee.Name()+" needs sz bytes: "+l.exprText(ce), ce, Le(n, r.sLen(d)))
		// contents written: abstract (trusted inverse of Varint)
		as := r.sArr(lv.whole).Sort
		na := l.tmp(as)
		l.havoc(na, as)
		nat := V(na, as)
		l.quantN++
		bv := &Term{Op: "bound", Name: fmt.Sprintf("pv!%d", l.quantN), Sort: "Int"}
		inside := And(Le(r.sOff(d), bv), Lt(bv, Add(r.sOff(d), n)))
		l.assume(&Term{Op: "forall", Sort: "Bool", Args: []*Term{bv, Implies(Not(inside), Eq(Select(nat, bv), Select(r.sArr(lv.whole), bv)))}})
		// the bytes written decode back (exact functions uv_len / uv_val of the prelude): canonical encoding
		decoded := App("uv_val", "Int", nat, r.sOff(d))
		if callee.Name() == "PutVarint" {
			decoded = App("unzigzag", "Int", decoded)
		}
		l.assume(And(Eq(App("uv_len", "Int", nat, r.sOff(d)), n), Eq(decoded, args[1]),
			Le(Select(nat, Add(r.sOff(d), IntLit(9))), Ite(Eq(n, IntLit(10)), IntLit(1), IntLit(255)))))
		for k := int64(0); k < 10; k++ {
			e := Select(nat, Add(r.sOff(d), IntLit(k)))
			l.assume(Implies(Lt(IntLit(k), n), And(Le(IntLit(0), e), Le(e, IntLit(255)))))
		}
		w := lv.whole
		l.store(lv.pl, r.sMk(w.Sort, nat, r.sOff(w), r.sLen(w), r.sCap(w), r.sNil(w)))
		l.note("T-stdlib: encoding/binary.PutVarint/PutUvarint write exactly sz bytes that Varint/Uvarint decode back")
		return []*Term{n}
	case "sync/atomic.AddInt64", "sync/atomic.AddInt32", "sync/atomic.LoadInt64", "sync/atomic.LoadInt32",
		"sync/atomic.StoreInt64", "sync/atomic.StoreInt32":
		// T-stdlib: an atomic operation on &x.f is the plain operation on the field (sequential verification: the
		// atomicity is what makes the sequential reading adequate for this one cell)
		if ue, ok := ast.Unparen(ce.Args[0]).(*ast.UnaryExpr); ok && ue.Op == token.AND {
			pl := l.placeOf(ue.X)
			if pl != nil {
				cur := l.load(pl)
				wrap := "wrap64"
				if strings.HasSuffix(callee.Name(), "32") {
					wrap = "wrap32"
				}
				l.note("T-stdlib: sync/atomic integer operations read/update the addressed field")
				switch {
				case strings.HasPrefix(callee.Name(), "Add"):
					nv := App(wrap, "Int", Add(cur, args[1]))
					l.store(pl, nv)
					return []*Term{l.load(pl)}
				case strings.HasPrefix(callee.Name(), "Load"):
					return []*Term{cur}
				default:
					l.store(pl, args[1])
					return nil
				}
			}
		}
	case "(*sync.Mutex).Lock", "(*sync.RWMutex).Lock", "(*sync.RWMutex).RLock":
		l.lockOp(recv, true, ce)
		return nil
	case "(*sync.Mutex).Unlock", "(*sync.RWMutex).Unlock", "(*sync.RWMutex).RUnlock":
		if callee.Name() == "Unlock" {
			l.lockInvariant(recv, false, ce)
		}
		l.lockOp(recv, false, ce)
		return nil
	case "sort.Sort", "sort.Strings", "sort.Ints", "sort.Slice", "sort.SliceStable", "sort.Stable":
		// T-stdlib: sorting permutes the elements of the slice in place. The argument is followed through
		// conversions (int32Slice(x), sort.StringSlice(x), ...) to the slice variable that is sorted.
		target := ce.Args[0]
		for {
			if c, ok := ast.Unparen(target).(*ast.CallExpr); ok && len(c.Args) == 1 {
				if tv, ok := l.info().Types[c.Fun]; ok && tv.IsType() {
					target = c.Args[0]
					continue
				}
			}
			// sort.Sort(&T{..., field: s, ...}) with exactly one slice-valued field: s is what gets sorted
			lit, _ := ast.Unparen(target).(*ast.CompositeLit)
			if ue, ok := ast.Unparen(target).(*ast.UnaryExpr); ok && ue.Op == token.AND {
				lit, _ = ast.Unparen(ue.X).(*ast.CompositeLit)
			}
			if lit != nil {
				var sliceVals []ast.Expr
				for _, el := range lit.Elts {
					v := el
					if kv, ok := el.(*ast.KeyValueExpr); ok {
						v = kv.Value
					}
					if t := l.typeOf(v); t != nil {
						if _, isSlice := t.Underlying().(*types.Slice); isSlice {
							sliceVals = append(sliceVals, v)
						}
					}
				}
				if len(sliceVals) == 1 {
					target = sliceVals[0]
					continue
				}
			}
			break
		}
		lv := l.slicePlace(target)
		if lv == nil {
			break
		}
		// the sorted slice is the value variable of the enclosing range over a map: the map entry shares its
		// backing array, so the entry is permuted with it
		var aliasMap ast.Expr
		var aliasKey ast.Expr
		if id, ok := ast.Unparen(target).(*ast.Ident); ok && len(l.rangeStack) > 0 {
			rs := l.rangeStack[len(l.rangeStack)-1]
			if vid, ok := rs.Value.(*ast.Ident); ok && rs.Key != nil && l.info().ObjectOf(vid) == l.info().ObjectOf(id) {
				if _, isMap := l.typeOf(rs.X).Underlying().(*types.Map); isMap {
					aliasMap, aliasKey = rs.X, rs.Key
				}
			}
		}
		// freeze the old value, store the permuted one, and state the facts over variables (clean triggers)
		oldv := l.tmp(lv.whole.Sort)
		l.assign(oldv, lv.whole.Sort, lv.whole)
		w := V(oldv, lv.whole.Sort)
		as := r.sArr(w).Sort
		na := l.tmp(as)
		l.havoc(na, as)
		nat := V(na, as)
		l.store(lv.pl, r.sMk(w.Sort, nat, r.sOff(w), r.sLen(w), r.sCap(w), r.sNil(w)))
		newv := l.tmp(w.Sort)
		l.assign(newv, w.Sort, l.load(lv.pl))
		nw := V(newv, w.Sort)
		if aliasMap != nil {
			if mpl := l.placeOf(&ast.IndexExpr{X: aliasMap, Index: aliasKey}); mpl != nil {
				l.store(mpl, nw)
			}
		}
		l.quantN++
		k := &Term{Op: "bound", Name: fmt.Sprintf("sk!%d", l.quantN), Sort: "Int"}
		l.quantN++
		j := &Term{Op: "bound", Name: fmt.Sprintf("sj!%d", l.quantN), Sort: "Int"}
		inK := And(Le(IntLit(0), k), Lt(k, r.sLen(w)))
		inJ := And(Le(IntLit(0), j), Lt(j, r.sLen(w)))
		// every new element is an old element and vice versa
		l.assume(&Term{Op: "forall", Sort: "Bool", Args: []*Term{k, Implies(inK,
			&Term{Op: "exists", Sort: "Bool", Args: []*Term{j, And(inJ, Eq(r.sIndex(nw, k), r.sIndex(w, j)))}})}})
		l.assume(&Term{Op: "forall", Sort: "Bool", Args: []*Term{j, Implies(inJ,
			&Term{Op: "exists", Sort: "Bool", Args: []*Term{k, And(inK, Eq(r.sIndex(nw, k), r.sIndex(w, j)))}})}})
		// ascending order for the integer/string orders of the standard helpers and the repository's int32Slice
		asc := false
		if full == "sort.Ints" || full == "sort.Strings" {
			asc = true
		}
		if full == "sort.Sort" {
			if c, ok := ast.Unparen(ce.Args[0]).(*ast.CallExpr); ok {
				if id, ok := ast.Unparen(c.Fun).(*ast.Ident); ok && id.Name == "int32Slice" {
					asc = true
				}
			}
		}
		if asc && r.sliceElem(w.Sort) == "Int" {
			l.quantN++
			a := &Term{Op: "bound", Name: fmt.Sprintf("sa!%d", l.quantN), Sort: "Int"}
			l.quantN++
			b2 := &Term{Op: "bound", Name: fmt.Sprintf("sb!%d", l.quantN), Sort: "Int"}
			l.assume(&Term{Op: "forall", Sort: "Bool", Args: []*Term{a, b2, Implies(And(Le(IntLit(0), a), Lt(a, b2), Lt(b2, r.sLen(w))),
				Le(r.sIndex(nw, a), r.sIndex(nw, b2)))}})
		}
		l.note("T-stdlib: sort.* permutes the slice in place (ascending for sort.Ints/Strings and int32Slice)")
		if callsBack(full) {
			l.havocEscaped()
		}
		return l.freshResults(resTypes)
	case "(*sync.WaitGroup).Add", "(*sync.WaitGroup).Done":
		if recv != nil {
			cnt := l.heapVar("F.$wg.count", "Int")
			d := IntLit(-1)
			if callee.Name() == "Add" && len(args) == 1 {
				d = args[0]
			}
			l.assign(cnt.Name, cnt.Sort, Store(cnt, recv, Add(Select(cnt, recv), d)))
		}
		return nil
	case "math.Floor":
		// A-float: float64 is modelled by the reals; Floor is the mathematical floor
		l.note("A-float: float64 arithmetic is treated as exact real arithmetic (math.Floor = floor)")
		return []*Term{App("to_real", "Real", App("to_int", "Int", args[0]))}
	case "errors.New", "fmt.Errorf":
		e := l.alloc()
		return []*Term{e}
	case "(*github.com/eapache/go-resiliency/breaker.Breaker).Run":
		// the circuit breaker either refuses (returns an error without running the work) or runs the work
		// once and returns its result (T-stdlib-like trusted model of the third-party breaker)
		if fl, ok := ast.Unparen(ce.Args[0]).(*ast.FuncLit); ok {
			res := l.tmp("Int")
			refused := l.f.newBlock("breaker.refused")
			run := l.f.newBlock("breaker.run")
			join := l.f.newBlock("breaker.join")
			l.cur.Succs = append(l.cur.Succs, refused, run)
			l.cur = run
			rs, _ := l.inline(l.p.litInfo[fl], nil, nil, nil, nil, ce, true)
			if len(rs) == 1 {
				l.assign(res, "Int", rs[0])
			} else {
				l.havoc(res, "Int")
			}
			l.jump(join)
			l.cur = refused
			e := l.alloc()
			l.assign(res, "Int", e)
			l.jump(join)
			l.cur = join
			l.note("T-stdlib: breaker.Run runs the function at most once and returns its error, or refuses with a non-nil error; it does not retain the function")
			// the closure does not outlive the call: its captured variables are no longer exposed
			saved, savedHeap := l.escaped, l.escapedHeap
			l.escaped, l.escapedHeap = map[string]bool{}, map[string]bool{}
			l.recordEscape(l.p.litInfo[fl])
			for k := range l.escaped {
				delete(saved, k)
			}
			for k := range l.escapedHeap {
				delete(savedHeap, k)
			}
			l.escaped, l.escapedHeap = saved, savedHeap
			return []*Term{V(res, "Int")}
		}
	case "(*sync.Once).Do":
		// the function literal may or may not run
		if fl, ok := ast.Unparen(ce.Args[0]).(*ast.FuncLit); ok {
			skip := l.f.newBlock("once.skip")
			run := l.f.newBlock("once.run")
			join := l.f.newBlock("once.join")
			l.cur.Succs = append(l.cur.Succs, skip, run)
			l.cur = run
			l.inline(l.p.litInfo[fl], nil, nil, nil, nil, ce, true)
			l.jump(join)
			l.cur = skip
			l.jump(join)
			l.cur = join
			return nil
		}
	}
	if strings.HasPrefix(full, "(*sync.WaitGroup).") || strings.HasPrefix(full, "(sync/atomic.") || strings.HasPrefix(full, "sync/atomic.") {
		if ct := l.p.contracts["ext."+full]; ct != nil {
			fi := &FuncInfo{Key: "ext." + full, Pkg: l.fr.fi.Pkg, Sig: sig, Obj: callee}
			return l.callContract(ct, fi, recv, recvTyp, args, atys, ce)
		}
	}
	if ct := l.p.contracts["ext."+full]; ct != nil {
		fi := &FuncInfo{Key: "ext." + full, Pkg: l.fr.fi.Pkg, Sig: sig, Obj: callee}
		return l.callContract(ct, fi, recv, recvTyp, args, atys, ce)
	}
	// generic external: results unconstrained. Slice arguments that are lvalues may be written.
	// Repo objects passed by reference, closures or interface values may be called back: havoc.
	callback := false
	litCallback := false
	for i, a := range ce.Args {
		at := atys[i]
		if at == nil {
			continue
		}
		switch u := at.Underlying().(type) {
		case *types.Signature:
			if _, isLit := ast.Unparen(a).(*ast.FuncLit); isLit && callsBack(full) {
				// a literal closure: its effects were recorded when it was created and are applied below
				litCallback = true
			} else if callsBack(full) {
				callback = true
			}
		case *types.Slice:
			if pkgPath(callee) != "fmt" && pkgPath(callee) != "errors" && !isLogger(full) {
				if lv := l.slicePlace(a); lv != nil {
					w := lv.whole
					as := r.sArr(w).Sort
					na := l.tmp(as)
					l.havoc(na, as)
					l.store(lv.pl, r.sMk(w.Sort, V(na, as), r.sOff(w), r.sLen(w), r.sCap(w), r.sNil(w)))
				}
			}
		case *types.Pointer:
			if st, stt := structOf(u); st != nil && !l.p.isOpaqueStruct(stt) && callsBack(full) {
				callback = true
			}
		case *types.Interface:
			if callsBack(full) {
				callback = true
			}
		}
	}
	if litCallback && !callback {
		l.bumpAlloc()
		l.havocEscaped()
	}
	if callback {
		l.note("havoc-call: external " + full + " may call back into the package")
		l.emit(&Stmt{Kind: SHavocAll, Note: "external call with callback " + full})
		l.bumpAlloc()
		l.havocEscaped()
	}
	if pkgPath(callee) == "sort" {
		l.note("T-stdlib: sort.* only permutes its argument")
	}
	return l.freshResults(resTypes)
}

func pkgPath(f *types.Func) string {
	if f.Pkg() == nil {
		return ""
	}
	return f.Pkg().Path()
}

func isLogger(full string) bool {
	return strings.Contains(full, "StdLogger") || strings.HasPrefix(full, "(*log.Logger)")
}

// callsBack: externals that invoke methods of, or write through, their arguments.
func callsBack(full string) bool {
	if strings.Contains(full, "github.com/rcrowley/go-metrics") {
		return false // metrics registry: stores and reads metric objects only
	}
	for _, p := range []string{"sort.", "container/heap.", "(*sync.Once)", "encoding/", "(*github.com/eapache"} {
		if strings.HasPrefix(full, p) {
			return true
		}
	}
	if strings.HasPrefix(full, "fmt.") || strings.HasPrefix(full, "errors.") || isLogger(full) || strings.HasPrefix(full, "io.") ||
		strings.HasPrefix(full, "(net.") || strings.HasPrefix(full, "net.") || strings.HasPrefix(full, "(*net.") ||
		strings.HasPrefix(full, "(*sync.") || strings.HasPrefix(full, "time.") || strings.HasPrefix(full, "(time.") ||
		strings.HasPrefix(full, "(*time.") || strings.HasPrefix(full, "strings.") || strings.HasPrefix(full, "strconv.") ||
		strings.HasPrefix(full, "(github.com/rcrowley") || strings.HasPrefix(full, "math") || strings.HasPrefix(full, "hash") ||
		strings.HasPrefix(full, "(hash") || strings.HasPrefix(full, "bytes.") || strings.HasPrefix(full, "(*bytes.") {
		return false
	}
	return true
}

var _ = token.ADD
