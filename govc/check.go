package main

func cmdCheck(args []string) {}

func (p *Prog) autoContract(fi *FuncInfo) *Contract { return p.autoContracts[fi.Key] }
