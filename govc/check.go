package main

import (
	"encoding/json"
	"flag"
	"fmt"
	"go/types"
	"os"
	"os/exec"
	"path/filepath"
	"regexp"
	"sort"
	"strings"
	"time"
)

// autoContract synthesises the safety contract of the zero-annotation sweep (C10): every function
// with a body that takes a packetDecoder parameter keeps the decoder's abstract state well-formed
// and writes only the decoder, its receiver and objects it allocates itself.
func (p *Prog) autoContract(fi *FuncInfo) *Contract {
	if ct, ok := p.autoContracts[fi.Key]; ok {
		return ct
	}
	p.autoContracts[fi.Key] = nil
	if fi.Sig == nil || fi.Lit != nil {
		return nil
	}
	if fi.Iface != nil {
		// interface methods named decode taking a packetDecoder (decoder, versionedDecoder, ...)
		if fi.Obj == nil {
			return nil
		}
	}
	pdNames := map[int]string{}
	for i := 0; i < fi.Sig.Params().Len(); i++ {
		pt := fi.Sig.Params().At(i).Type()
		if namedOf(pt) == "packetDecoder" {
			if _, isIface := pt.Underlying().(*types.Interface); isIface {
				n := fi.Sig.Params().At(i).Name()
				if n == "" || n == "_" {
					n = fmt.Sprintf("pd%d", i)
				}
				pdNames[i] = n
			}
		}
	}
	if len(pdNames) == 0 {
		return nil
	}
	if fi.Sig.Recv() != nil && namedOf(fi.Sig.Recv().Type()) == "realDecoder" {
		return nil
	}
	ct := &Contract{Key: fi.Key, Loops: map[int]*LoopSpec{}, Props: []string{"C10"}, File: "(auto)"}
	// parameter names positional
	for i := 0; i < fi.Sig.Params().Len(); i++ {
		n := fi.Sig.Params().At(i).Name()
		if pn, ok := pdNames[i]; ok {
			n = pn
		} else if n == "" || n == "_" {
			n = "_"
		}
		ct.Params = append(ct.Params, n)
	}
	mk := func(kind, label, src string) *Clause {
		e, err := parseSpec(src)
		if err != nil {
			panic(err)
		}
		return &Clause{Kind: kind, Label: label, Src: src, Expr: e, File: "(auto)"}
	}
	var idxs []int
	for i := range pdNames {
		idxs = append(idxs, i)
	}
	sort.Ints(idxs)
	var reqs, enss []string
	for _, i := range idxs {
		pdName := pdNames[i]
		reqs = append(reqs, pdName+".remaining() >= 0")
		enss = append(enss, "0 <= "+pdName+".remaining() && "+pdName+".remaining() <= old("+pdName+".remaining())")
	}
	ct.Requires = append(ct.Requires, mk("requires", "", strings.Join(reqs, " && ")))
	ct.Ensures = append(ct.Ensures, mk("ensures", "state", strings.Join(enss, " && ")))
	// frame: the syntactic mod-set of the body (sound by construction, field granularity) plus the
	// abstract decoder state; no frame obligations are needed for it
	ct.Auto = true
	ct.AutoInv = ct.Ensures[0]
	p.autoContracts[fi.Key] = ct
	return ct
}

// sweepFunctions: the functions of the C10 sweep (auto or explicit contract, with a body).
func (p *Prog) sweepFunctions() []*FuncInfo {
	var out []*FuncInfo
	for _, fi := range p.funcs {
		if fi.Body == nil || fi.Lit != nil {
			continue
		}
		if p.contracts[fi.Key] != nil {
			continue
		}
		// request bodies are decoded only by the mock broker (tests); C10 is about data a client reads
		if fn := p.fset.Position(fi.Body.Pos()).Filename; strings.HasSuffix(fn, "_request.go") {
			continue
		}
		if ct := p.autoContract(fi); ct != nil {
			out = append(out, fi)
		}
	}
	sort.Slice(out, func(i, j int) bool { return out[i].Key < out[j].Key })
	return out
}

// ---------------------------------------------------------------------------
// property checks

type knownFinding struct {
	Property   string `json:"property"`
	Obligation string `json:"obligation"`
	What       string `json:"what"`
	Status     string `json:"status"` // "known" suppresses the alarm for exactly this obligation; "fixed" suppresses nothing
	Commit     string `json:"commit,omitempty"`
	Input      string `json:"input,omitempty"`
}

type baselineFile struct {
	Properties map[string][]string `json:"properties"` // property -> obligations discharged on the pinned tree
	Functions  map[string][]string `json:"functions"`  // property -> functions under contract
	WireReplay []string            `json:"wire_replay,omitempty"` // "Type/vN": the round-trip replay harness passes on the pinned tree
}

const verifDir = "/verif"

func loadBaseline() *baselineFile {
	b := &baselineFile{Properties: map[string][]string{}, Functions: map[string][]string{}}
	data, err := os.ReadFile(filepath.Join(verifDir, "baseline", "obligations.json"))
	if err == nil {
		json.Unmarshal(data, b)
	}
	return b
}

func loadKnown() []knownFinding {
	var k struct {
		Findings []knownFinding `json:"findings"`
	}
	data, err := os.ReadFile(filepath.Join(verifDir, "known_findings.json"))
	if err == nil {
		json.Unmarshal(data, &k)
	}
	return k.Findings
}

// propFunctions: functions whose contracts (explicit or auto) serve the property.
func (p *Prog) propFunctions(prop string) []*FuncInfo {
	var out []*FuncInfo
	seen := map[string]bool{}
	for key, ct := range p.contracts {
		if ct.Trusted || ct.Pure && len(ct.Ensures) == 0 {
			continue
		}
		serves := hasProp(ct.Props, prop)
		if !serves {
			for _, c := range ct.Ensures {
				if hasProp(c.Props, prop) {
					serves = true
				}
			}
			for _, ls := range ct.Loops {
				for _, c := range ls.Invs {
					if hasProp(c.Props, prop) {
						serves = true
					}
				}
			}
			for _, cs := range ct.CallSites {
				for _, c := range cs {
					if hasProp(c.Props, prop) {
						serves = true
					}
				}
			}
		}
		if !serves {
			continue
		}
		fi := p.funcs[key]
		if fi == nil || fi.Body == nil {
			continue
		}
		out = append(out, fi)
		seen[key] = true
	}
	if prop == "C10" {
		for _, fi := range p.sweepFunctions() {
			if !seen[fi.Key] {
				out = append(out, fi)
			}
		}
	}
	sort.Slice(out, func(i, j int) bool { return out[i].Key < out[j].Key })
	return out
}

// missingFunctions: contracts tagged with the property whose function no longer exists.
func (p *Prog) missingFunctions(prop string) []string {
	var out []string
	for key, ct := range p.contracts {
		if !hasProp(ct.Props, prop) || strings.HasPrefix(key, "ext.") {
			continue
		}
		if strings.Count(key, ".") >= 2 && !strings.HasPrefix(key, "mocks.") {
			continue // callspec of a function-typed parameter
		}
		if p.funcs[key] == nil {
			out = append(out, key)
		}
	}
	sort.Strings(out)
	return out
}

type obRecord struct {
	Name    string  `json:"obligation"`
	Kind    string  `json:"kind"`
	Func    string  `json:"function"`
	Descr   string  `json:"clause"`
	Pos     string  `json:"pos,omitempty"`
	Status  string  `json:"status"`
	Solver  string  `json:"solver"`
	TimeS   float64 `json:"time_s"`
	SMTFile string  `json:"smt_file,omitempty"`
	Claimed bool    `json:"claimed"`
}

type checkRun struct {
	prop        string
	tier        string
	results     []*Result
	funcs       []string
	unsupported []string
	assumptions map[string]bool
	lowerErrs   []string
	solverTime  float64
}

func (p *Prog) runProperty(prop, tier string, timeout int) *checkRun {
	run := &checkRun{prop: prop, tier: tier, assumptions: map[string]bool{}}
	fis := p.propFunctions(prop)
	var queries []*Query
	for _, fi := range fis {
		ct := p.contractFor(fi)
		f, err := p.lowerTop(fi, ct)
		if err != nil {
			run.lowerErrs = append(run.lowerErrs, err.Error())
			continue
		}
		qs, err := generateVCs(p, f)
		if err != nil {
			run.lowerErrs = append(run.lowerErrs, err.Error())
			continue
		}
		run.funcs = append(run.funcs, fi.Key)
		for _, u := range f.Unsupported {
			run.unsupported = append(run.unsupported, fi.Key+": "+u)
		}
		for a := range f.Assumptions {
			run.assumptions[a] = true
		}
		for _, q := range qs {
			if hasProp(q.Ob.Props, prop) {
				queries = append(queries, q)
			}
		}
	}
	queries = append(queries, p.lemmaQueries(prop)...)
	dir := filepath.Join(verifDir, "out", "smt", prop)
	os.RemoveAll(dir)
	run.results = solveAll(queries, dir, timeout, tier == "thorough", 16)
	for _, r := range run.results {
		run.solverTime += r.TimeS
	}
	// relational encode/decode contracts (wire.go)
	if hasProp(p.wireProps, prop) {
		for _, r := range p.wireResults(filepath.Join(dir, "wire")) {
			if only := p.wireTypes[prop]; only != nil && !only[strings.TrimSuffix(r.Ob.Func, ".encode")] {
				continue
			}
			if cl := p.wireClauses[prop]; cl != nil && !cl[r.Ob.Label] {
				continue
			}
			run.results = append(run.results, r)
			run.solverTime += r.TimeS
			if r.Status == "unsat" && r.Ob.Kind == "wire-dual" {
				run.funcs = append(run.funcs, r.Ob.Func, strings.TrimSuffix(r.Ob.Func, ".encode")+".decode")
			}
		}
		run.assumptions["A-wire: the encode/decode pair of a message type is compared token by token per protocol version (lockstep loop rule: dual bodies, the count is the length token written/read before the loop); values carried by the tokens (which field a token comes from or goes to) are not compared; blocks out of reach of the extractor stay opaque"] = true
	}
	// axioms imported from Lean: compile the file; the lemma obligation is discharged iff Lean accepts it
	// without errors and without sorry
	for _, lp := range p.leanProofs {
		if !hasProp(lp.Props, prop) {
			continue
		}
		ob := &Oblig{Name: "lean/" + lp.Label, Kind: "lemma", Func: "lean:" + lp.File, Label: lp.Label, Props: lp.Props,
			Descr: "the axioms labelled " + lp.Label + " are theorems of " + lp.File + " (checked by Lean 4 with Mathlib)"}
		start := time.Now()
		cmd := exec.Command("lean", filepath.Join(verifDir, lp.File))
		out, err := cmd.CombinedOutput()
		res := &Result{Ob: ob, File: filepath.Join(verifDir, lp.File), Solver: "lean4+mathlib", TimeS: time.Since(start).Seconds(), Output: string(out)}
		if err == nil && !strings.Contains(string(out), "error") && !strings.Contains(string(out), "sorry") {
			res.Status = "unsat" // discharged
		} else {
			res.Status = "unknown"
		}
		run.results = append(run.results, res)
		run.solverTime += res.TimeS
	}
	return run
}

func discharged(r *Result) bool {
	if r.Ob.Canary || r.Ob.Cover {
		return r.Status == "sat"
	}
	return r.Status == "unsat"
}

// failed: the obligation is definitely not met. A vacuity canary fails only when the solver proves the
// point unreachable (unsat); an inconclusive satisfiability query is not an alarm.
func failed(r *Result) bool {
	if r.Ob.Canary || r.Ob.Cover {
		return r.Status == "unsat"
	}
	return r.Status != "unsat"
}

func cmdBaseline(args []string) {
	p := mustLoad()
	b := loadBaseline()
	props := args
	if len(props) == 0 {
		fmt.Fprintln(os.Stderr, "usage: govc baseline C10 C17 ...")
		os.Exit(2)
	}
	for _, prop := range props {
		run := p.runProperty(prop, "quick", 10)
		var names []string
		n := 0
		for _, r := range run.results {
			n++
			if discharged(r) && r.TimeS > 4.0 && !r.Ob.Canary && !strings.HasPrefix(r.Ob.Func, "lean:") {
				// claim only what discharges well inside the quick timeout (slow queries are the unstable ones)
				fmt.Printf("not in baseline (slow, %.1fs): %s\n", r.TimeS, r.Ob.Name)
				continue
			}
			if r.Ob.Canary && strings.Contains(r.Ob.Name, "/canary/return#") {
				continue // per-return reachability is a diagnostic (dead code is legal); only exit-reachable is claimed
			}
			if discharged(r) {
				names = append(names, r.Ob.Name)
			} else {
				fmt.Printf("not in baseline: %s (%s) %s\n", r.Ob.Name, r.Status, r.Ob.Descr)
			}
		}
		sort.Strings(names)
		b.Properties[prop] = names
		b.Functions[prop] = run.funcs
		fmt.Printf("%s: %d/%d obligations discharged, %d functions\n", prop, len(names), n, len(run.funcs))
		for _, e := range run.lowerErrs {
			fmt.Println("  error:", e)
		}
		if only, has := p.wireTypes[prop]; has && only == nil && p.wireClauses[prop] == nil {
			b.WireReplay = p.wireReplayBaseline()
			fmt.Printf("%s: round-trip replay harness passes for %d (type, version) cases\n", prop, len(b.WireReplay))
		}
	}
	os.MkdirAll(filepath.Join(verifDir, "baseline"), 0o755)
	data, _ := json.MarshalIndent(b, "", " ")
	os.WriteFile(filepath.Join(verifDir, "baseline", "obligations.json"), data, 0o644)
}

func cmdCheck(args []string) {
	fs := flag.NewFlagSet("check", flag.ExitOnError)
	tier := fs.String("tier", "quick", "quick|thorough")
	replay := fs.String("replay", "", "replay file")
	var prop string
	if len(args) > 0 && !strings.HasPrefix(args[0], "-") {
		prop = args[0]
		args = args[1:]
	}
	fs.Parse(args)
	if prop == "" && fs.NArg() > 0 {
		prop = fs.Arg(0)
	}
	if t := os.Getenv("VERIF_TIER"); t != "" && *tier == "quick" {
		*tier = t
	}
	if *replay != "" {
		os.Exit(cmdReplay(prop, *replay))
	}
	start := time.Now()
	p := mustLoad()
	timeout := 10
	if *tier == "thorough" {
		timeout = 60
	}
	base := loadBaseline()
	claimed := map[string]bool{}
	claimedBase := map[string]bool{}
	for _, n := range base.Properties[prop] {
		claimed[n] = true
		claimedBase[clauseBase(n)] = true
	}
	known := map[string]knownFinding{}
	for _, k := range loadKnown() {
		if k.Property == prop && k.Status == "known" {
			known[k.Obligation] = k
		}
	}
	// functions claimed in the baseline must still exist
	var undecided []string
	for _, fn := range base.Functions[prop] {
		if p.funcs[fn] == nil || p.funcs[fn].Body == nil {
			undecided = append(undecided, "function under contract no longer exists: "+fn)
		}
	}
	for _, m := range p.missingFunctions(prop) {
		undecided = append(undecided, "contract names a function that does not exist: "+m)
	}
	run := p.runProperty(prop, *tier, timeout)
	for _, e := range run.lowerErrs {
		undecided = append(undecided, "cannot form obligations: "+e)
	}
	regenerated := map[string]bool{}
	nClaimed, nDischarged := 0, 0
	var records []obRecord
	var violations []*Result
	var knownHit []string
	var unclaimed []string
	var deadReturns []string
	for _, r := range run.results {
		regenerated[r.Ob.Name] = true
		// a contract clause is claimed for every place it applies: a new instance (another call site, another
		// return or loop edge) of a claimed clause is claimed too
		if !claimed[r.Ob.Name] && contractKind(r.Ob.Kind) && claimedBase[clauseBase(r.Ob.Name)] {
			claimed[r.Ob.Name] = true
		}
		ok := discharged(r) || !failed(r)
		if r.Ob.Canary && strings.Contains(r.Ob.Name, "/canary/return#") {
			if failed(r) {
				deadReturns = append(deadReturns, r.Ob.Name+" ["+r.Ob.Pos+"]")
			}
			continue
		}
		rec := obRecord{Name: r.Ob.Name, Kind: r.Ob.Kind, Func: r.Ob.Func, Descr: r.Ob.Descr, Pos: r.Ob.Pos,
			Status: r.Status, Solver: r.Solver, TimeS: r.TimeS, SMTFile: r.File, Claimed: claimed[r.Ob.Name]}
		records = append(records, rec)
		if claimed[r.Ob.Name] {
			nClaimed++
			if ok {
				nDischarged++
			}
		}
		if ok {
			if !discharged(r) {
				unclaimed = append(unclaimed, r.Ob.Name+" (vacuity guard inconclusive: "+r.Status+")")
			}
			continue
		}
		if k, isKnown := known[r.Ob.Name]; isKnown {
			knownHit = append(knownHit, fmt.Sprintf("KNOWN-FINDING: property=%s %s: %s", prop, r.Ob.Name, k.What))
			continue
		}
		if claimed[r.Ob.Name] && strings.HasPrefix(r.Ob.Kind, "wire-") && r.Status == "unknown" {
			// the pair left the reach of the grammar extractor (a construct it does not model): nothing is known
			// about the property, which is not a violation
			undecided = append(undecided, "claimed obligation can no longer be formed: "+r.Ob.Name+": "+truncate(r.Output, 300))
			continue
		}
		if claimed[r.Ob.Name] {
			violations = append(violations, r)
			continue
		}
		// an obligation that was never discharged on the pinned tree (new code or not claimed):
		// a violation only when the refutation replays on the real code
		if r.Status == "sat" && !r.Ob.Canary {
			if path, reproduced := tryReplay(p, prop, r); reproduced {
				r.Output = "replayed: " + path
				violations = append(violations, r)
				continue
			}
		}
		unclaimed = append(unclaimed, r.Ob.Name+" ("+r.Status+")")
	}
	// claimed contract clauses that were not regenerated although their function exists
	regeneratedBase := map[string]bool{}
	for n := range regenerated {
		regeneratedBase[clauseBase(n)] = true
	}
	for n := range claimed {
		// the instance suffixes (#k: k-th return or call site, @eK: loop edge) depend on the shape of the function;
		// a clause counts as regenerated when any instance of it was
		if regenerated[n] || regeneratedBase[clauseBase(n)] {
			continue
		}
		parts := strings.SplitN(n, "/", 3)
		if len(parts) >= 2 && (parts[1] == "ensures" || strings.HasPrefix(parts[1], "inv-")) {
			undecided = append(undecided, "claimed obligation not regenerated: "+n)
		}
	}
	for _, l := range knownHit {
		fmt.Println(l)
	}
	exit := 0
	os.MkdirAll(filepath.Join(verifDir, "replays", prop), 0o755)
	// bounded stand-ins (labelled bounded, never counted as proved): run on the real code; a failure comes with
	// the concrete input that fails
	boundedReport = nil
	boundedViolations := 0
	for _, bc := range p.boundedChecks {
		if !hasProp(bc.Props, prop) {
			continue
		}
		rep, fails := runBounded(bc, prop, *tier)
		boundedReport = append(boundedReport, rep)
		for i, f := range fails {
			path := filepath.Join(verifDir, "replays", prop, fmt.Sprintf("bounded_%s_%d.json", bc.Label, i))
			data, _ := json.MarshalIndent(map[string]interface{}{"property": prop, "bounded_check": bc.Label, "test": bc.Test, "file": bc.File,
				"failing_case": f, "how_to_replay": "cd /repo && go test -overlay <overlay mapping " + bc.File + " into the package> -vet=off -run " + bc.Test + " ."}, "", " ")
			os.WriteFile(path, data, 0o644)
			fmt.Printf("VIOLATION property=%s replay=%s obligation=bounded/%s status=failing-input %s\n", prop, path, bc.Label, truncate(f, 200))
			boundedViolations++
			exit = 1
		}
	}
	if only, has := p.wireTypes[prop]; has && only == nil && p.wireClauses[prop] == nil && *tier == "thorough" && len(base.WireReplay) > 0 {
		rep, fails := p.wireRoundTripStandIn(prop, base)
		boundedReport = append(boundedReport, rep)
		for i, f := range fails {
			path := filepath.Join(verifDir, "replays", prop, fmt.Sprintf("bounded_wire_roundtrip_%d.json", i))
			data, _ := json.MarshalIndent(map[string]interface{}{"property": prop, "bounded_check": "wire_roundtrip", "failing_case": f,
				"how_to_replay": rep["cmd"]}, "", " ")
			os.WriteFile(path, data, 0o644)
			fmt.Printf("VIOLATION property=%s replay=%s obligation=bounded/wire_roundtrip status=failing-input %s\n", prop, path, truncate(f, 200))
			boundedViolations++
			exit = 1
		}
	}
	for _, r := range violations {
		path := writeViolation(p, prop, r)
		suffix := ""
		if strings.HasPrefix(r.Ob.Kind, "wire-") {
			if rp, reproduced := p.wireReplay(prop, r, base); reproduced {
				path = rp
			} else {
				suffix = " no-failing-input-found"
			}
		} else if !strings.HasPrefix(r.Output, "replayed: ") {
			if rp, reproduced := tryReplay(p, prop, r); reproduced {
				path = rp
			} else {
				suffix = " no-failing-input-found"
			}
		} else {
			path = strings.TrimPrefix(r.Output, "replayed: ")
		}
		fmt.Printf("VIOLATION property=%s replay=%s obligation=%s status=%s%s\n", prop, path, r.Ob.Name, r.Status, suffix)
		exit = 1
	}
	if exit == 0 && len(undecided) > 0 {
		for _, u := range undecided {
			fmt.Printf("UNDECIDED property=%s reason=%s\n", prop, u)
		}
		exit = 2
	}
	if exit == 0 && nClaimed == 0 {
		fmt.Printf("UNDECIDED property=%s reason=no claimed obligation was generated\n", prop)
		exit = 2
	}
	for _, d := range deadReturns {
		unclaimed = append(unclaimed, d+" (return statement unreachable under the contracts: dead code or over-strong assumption; diagnostic only)")
	}
	writeEvidence(p, run, prop, *tier, records, nClaimed, nDischarged, len(violations)+boundedViolations, knownHit, unclaimed, undecided, time.Since(start).Seconds())
	fmt.Printf("%s %s: %d functions under contract, %d/%d claimed obligations discharged, %d further obligations generated (%d not discharged, not claimed), %d violations, %.1fs\n",
		prop, *tier, len(run.funcs), nDischarged, nClaimed, len(records)-nClaimed, len(unclaimed), len(violations), time.Since(start).Seconds())
	os.Exit(exit)
}

func writeViolation(p *Prog, prop string, r *Result) string {
	dir := filepath.Join(verifDir, "replays", prop)
	os.MkdirAll(dir, 0o755)
	path := filepath.Join(dir, sanitizeFile(r.Ob.Name)+".json")
	rec := map[string]interface{}{
		"property": prop, "obligation": r.Ob.Name, "kind": r.Ob.Kind, "function": r.Ob.Func, "clause": r.Ob.Descr,
		"pos": r.Ob.Pos, "status": r.Status, "solver": r.Solver, "smt_file": r.File,
		"solver_output": r.Output, "model": truncate(r.Model, 20000),
		"note": "obligation was discharged on the pinned tree (baseline) and is not discharged now",
	}
	data, _ := json.MarshalIndent(rec, "", " ")
	os.WriteFile(path, data, 0o644)
	return path
}

func truncate(s string, n int) string {
	if len(s) > n {
		return s[:n] + "..."
	}
	return s
}

var trustedBase = []string{
	"govc: translation of the Go subset to verification conditions (weakest preconditions over the typed AST/CFG), SMT encoding",
	"SMT solvers z3 4.8.12, z3 5.1.0, cvc5 1.0.3",
	"go/types and go/packages (golang.org/x/tools v0.29.0)",
}

func writeEvidence(p *Prog, run *checkRun, prop, tier string, records []obRecord, nClaimed, nDischarged, nViol int, known, unclaimed, undecided []string, wall float64) {
	var assumptions []string
	for a := range run.assumptions {
		assumptions = append(assumptions, a)
	}
	assumptions = append(assumptions,
		"A-nil: nil dereference is not an obligation",
		"A-slice-alias: distinct slice headers do not share backing arrays",
		"A-conc: functions are verified as sequential code; goroutine interleavings are not modelled",
		"A-arch: int is 64 bit; slices are shorter than 2^56 elements",
		"A-iface: implementations supplied by the application satisfy exactly the interface contract and do not write the package's objects")
	for key, ct := range p.contracts {
		if ct.Trusted {
			assumptions = append(assumptions, "trusted contract (not verified against a body): "+key)
		} else {
			for _, c := range ct.Assumed {
				assumptions = append(assumptions, "assumed clause of a verified function (callers rely on it, not verified against the body): "+key+"/"+c.Label)
			}
		}
	}
	for _, lp := range p.leanProofs {
		if hasProp(lp.Props, prop) {
			assumptions = append(assumptions, "Lean 4 kernel and Mathlib are trusted for the axioms labelled "+lp.Label+" ("+lp.File+" is compiled on every run)")
		}
	}
	for _, br := range boundedReport {
		assumptions = append(assumptions, fmt.Sprintf("BOUNDED stand-in %v (%v): explores only the stated bound and is not counted among the discharged obligations", br["name"], br["summary"]))
	}
	sort.Strings(assumptions)
	samples := records
	if len(samples) > 40 {
		// keep failures and a spread of the rest
		var keep []obRecord
		for _, r := range records {
			if r.Status != "unsat" && !(r.Kind == "canary" && r.Status == "sat") {
				keep = append(keep, r)
			}
		}
		step := len(records) / 30
		if step < 1 {
			step = 1
		}
		for i := 0; i < len(records) && len(keep) < 60; i += step {
			keep = append(keep, records[i])
		}
		samples = keep
	}
	byKind := map[string]int{}
	bySolver := map[string]int{}
	for _, r := range records {
		byKind[r.Kind]++
		if r.Solver != "" {
			bySolver[r.Solver]++
		}
	}
	seed := 0
	fmt.Sscan(os.Getenv("VERIF_SEED"), &seed)
	ev := map[string]interface{}{
		"property_id": prop,
		"tier":        tier,
		"seed":        seed,
		"level":       "proof",
		"wall_s":      wall,
		"violations":  nViol,
		"assumptions": assumptions,
		"coverage": map[string]interface{}{
			"bounded_standins":           boundedReport,
			"obligations":                nClaimed,
			"discharged":                 nDischarged,
			"checker_cmd":                "/verif/bin/check " + prop + " --tier " + tier,
			"trusted_base":               trustedBase,
			"samples":                    samples,
			"functions_under_contract":   run.funcs,
			"obligations_generated":      len(records),
			"obligations_by_kind":        byKind,
			"discharged_by_solver":       bySolver,
			"solver_time_s":              run.solverTime,
			"not_claimed_not_discharged": unclaimed,
			"known_findings_announced":   known,
			"undecided":                  undecided,
			"out_of_subset":              run.unsupported,
			"undecided_clauses":          undecidedFor(prop),
			"explanation":                "obligations = contract clauses and automatic safety conditions generated from /repo's current source for the functions under contract that were discharged on the pinned tree (baseline/obligations.json); discharged = how many of them the SMT solvers proved unsat on this run",
		},
	}
	os.MkdirAll(filepath.Join(verifDir, "evidence"), 0o755)
	data, _ := json.MarshalIndent(ev, "", " ")
	os.WriteFile(filepath.Join(verifDir, "evidence", prop+".json"), data, 0o644)
}

// clauses of each property statement that the contracts do not decide (repeated in evidence)
var undecidedClauses = map[string][]string{}

// undecidedFor: the clauses of the property that the check does not decide, as recorded next to the claim
// (tools/claims.json, the source of MANIFEST.json's level_note): everything after "Not decided:".
func undecidedFor(prop string) []string {
	data, err := os.ReadFile(filepath.Join(verifDir, "tools", "claims.json"))
	if err != nil {
		return undecidedClauses[prop]
	}
	var c struct {
		Claimed map[string]struct {
			Note string `json:"note"`
		} `json:"claimed"`
	}
	if json.Unmarshal(data, &c) != nil {
		return undecidedClauses[prop]
	}
	note := c.Claimed[prop].Note
	i := strings.Index(note, "Not decided")
	if i < 0 {
		return []string{"(see level_note in MANIFEST.json)"}
	}
	return []string{strings.TrimSpace(note[i:])}
}

var reInstance = regexp.MustCompile(`(#\d+)?(@e\d+)?$`)

// clauseBase strips the instance suffixes (#k ordinal, @e<k> edge copy) from an obligation name.
func clauseBase(name string) string {
	return reInstance.ReplaceAllString(name, "")
}

// contractKind: obligations that come from a labelled clause of a contract (as opposed to automatic safety
// conditions, which are tied to one expression of the code).
func contractKind(kind string) bool {
	switch kind {
	case "ensures", "callsite", "inv-entry", "inv-preserve", "iter-ensures", "lock-held", "lock-inv":
		return true
	}
	return false
}

var boundedReport []map[string]interface{}

// runBounded runs a bounded stand-in test file in the package under /repo (through an overlay; nothing is written
// to /repo) and returns its report and the failing cases that concern the property.
func runBounded(bc boundedCheck, prop, tier string) (map[string]interface{}, []string) {
	ovDir := filepath.Join(verifDir, "out", "bounded")
	os.MkdirAll(ovDir, 0o755)
	ov := filepath.Join(ovDir, bc.Label+".overlay.json")
	data, _ := json.Marshal(map[string]interface{}{"Replace": map[string]string{
		filepath.Join(repoDir, "zz_verif_bounded_"+bc.Label+"_test.go"): filepath.Join(verifDir, bc.File)}})
	os.WriteFile(ov, data, 0o644)
	start := time.Now()
	cmd := exec.Command("go", "test", "-overlay", ov, "-vet=off", "-count=1", "-timeout", "900s", "-v", "-run", "^"+bc.Test+"$", ".")
	cmd.Dir = repoDir
	cmd.Env = append(os.Environ(), "VERIF_TIER="+tier, "GOFLAGS=-mod=mod", "GOPROXY=off", "GOSUMDB=off", "GOTOOLCHAIN=local")
	out, err := cmd.CombinedOutput()
	rep := map[string]interface{}{"name": bc.Label, "file": bc.File, "test": bc.Test, "label": "BOUNDED stand-in: not a proof, not counted among the discharged obligations",
		"wall_s": time.Since(start).Seconds()}
	var fails []string
	summary := ""
	for _, ln := range strings.Split(string(out), "\n") {
		if strings.HasPrefix(ln, "BOUNDED-FAIL ") {
			if strings.Contains(ln, "property="+prop+" ") {
				fails = append(fails, strings.TrimPrefix(ln, "BOUNDED-FAIL "))
			}
		} else if strings.HasPrefix(ln, "BOUNDED ") {
			summary = strings.TrimPrefix(ln, "BOUNDED ")
		}
	}
	rep["summary"] = summary
	rep["failures_for_this_property"] = len(fails)
	if summary == "" {
		// the harness did not run to completion (build error, panic, timeout): report it as a failing case
		tail := string(out)
		if len(tail) > 1500 {
			tail = tail[len(tail)-1500:]
		}
		fails = append(fails, "bounded harness did not complete: "+strings.ReplaceAll(tail, "\n", " | "))
		_ = err
	}
	return rep, fails
}
