package main

import (
	"go/ast"
	"go/token"
	"go/types"
	"os"
	"strings"
)

type ghostFun struct {
	argSorts []string
	resSort  string
	resType  types.Type
}

var fileCache = map[string][]byte{}

func (p *Prog) fileSrc(name string) []byte {
	if b, ok := fileCache[name]; ok {
		return b
	}
	b, err := os.ReadFile(name)
	if err != nil {
		b = nil
	}
	fileCache[name] = b
	return b
}

// globalIsConst: a package-level variable that is never assigned outside its declaration.
func (p *Prog) globalIsConst(o *types.Var) bool {
	if p.globalAssigned == nil {
		p.globalAssigned = map[types.Object]bool{}
		for _, pk := range p.pkgs {
			for _, f := range pk.Syntax {
				if strings.HasSuffix(p.fset.Position(f.Pos()).Filename, "_test.go") {
					continue
				}
				ast.Inspect(f, func(n ast.Node) bool {
					mark := func(e ast.Expr) {
						for {
							switch x := ast.Unparen(e).(type) {
							case *ast.IndexExpr:
								e = x.X
								continue
							case *ast.SelectorExpr:
								if id, ok := x.X.(*ast.Ident); ok {
									if _, isPkg := pk.TypesInfo.ObjectOf(id).(*types.PkgName); isPkg {
										if v, ok := pk.TypesInfo.ObjectOf(x.Sel).(*types.Var); ok {
											p.globalAssigned[v] = true
										}
										return
									}
								}
								e = x.X
								continue
							case *ast.Ident:
								if v, ok := pk.TypesInfo.ObjectOf(x).(*types.Var); ok && v.Pkg() != nil && v.Parent() == v.Pkg().Scope() {
									p.globalAssigned[v] = true
								}
							}
							return
						}
					}
					switch s := n.(type) {
					case *ast.AssignStmt:
						if s.Tok != token.DEFINE {
							for _, e := range s.Lhs {
								mark(e)
							}
						}
					case *ast.IncDecStmt:
						mark(s.X)
					case *ast.UnaryExpr:
						if s.Op == token.AND {
							mark(s.X)
						}
					}
					return true
				})
			}
		}
	}
	return !p.globalAssigned[o]
}

// implementers returns the named repo types (as pointer types where the pointer implements) implementing iface.
func (p *Prog) implementers(t types.Type) []types.Type {
	it, ok := t.Underlying().(*types.Interface)
	if !ok {
		return nil
	}
	key := types.TypeString(t, nil)
	if r, ok := p.implCache[key]; ok {
		return r
	}
	var out []types.Type
	for _, pk := range p.pkgs {
		sc := pk.Types.Scope()
		for _, n := range sc.Names() {
			tn, ok := sc.Lookup(n).(*types.TypeName)
			if !ok || tn.IsAlias() {
				continue
			}
			if _, isIface := tn.Type().Underlying().(*types.Interface); isIface {
				continue
			}
			if types.Implements(tn.Type(), it) {
				out = append(out, tn.Type())
			} else if types.Implements(types.NewPointer(tn.Type()), it) {
				out = append(out, types.NewPointer(tn.Type()))
			}
		}
	}
	if p.implCache == nil {
		p.implCache = map[string][]types.Type{}
	}
	p.implCache[key] = out
	return out
}

// modset: syntactic over-approximation of the heap variables a function may assign
// (field granularity; "*" = anything).
func (p *Prog) modset(fi *FuncInfo) map[string]bool {
	if ms, ok := p.modsets[fi.Key]; ok {
		return ms
	}
	ms := map[string]bool{}
	p.modsets[fi.Key] = ms // cycle guard: recursion sees the partial set; fixpoint below
	if fi.Body == nil {
		if ct := p.contracts[fi.Key]; ct != nil && ct.HasModifies {
			ms["$contract"] = true
		} else if fi.Iface != nil && fi.Obj != nil {
			// interface method: union over the implementations inside the repository; implementations
			// supplied by the application are assumed not to write the package's objects (A-iface)
			for _, it := range p.implementers(fi.Obj.Type().(*types.Signature).Recv().Type()) {
				if n := namedOf(it); n != "" {
					if ifi := p.funcs[p.keyPrefix(fi.Pkg)+n+"."+fi.Obj.Name()]; ifi != nil && ifi != fi {
						for k := range p.modset(ifi) {
							ms[k] = true
						}
					}
				}
			}
		} else {
			ms["*"] = true
		}
		return ms
	}
	p.modsetOf(fi, fi.Body, ms)
	return ms
}

func (p *Prog) modsetOf(fi *FuncInfo, body ast.Node, ms map[string]bool) {
	info := fi.Pkg.TypesInfo
	var markLhs func(e ast.Expr)
	markLhs = func(e ast.Expr) {
		switch x := ast.Unparen(e).(type) {
		case *ast.SelectorExpr:
			bt := info.TypeOf(x.X)
			if bt == nil {
				return
			}
			st, stt := structOf(bt)
			if st == nil {
				return
			}
			if isPointer(bt) {
				// all paths starting with this field
				ms["F."+p.structName(stt)+"."+x.Sel.Name] = true
				return
			}
			markLhs(x.X)
		case *ast.IndexExpr:
			bt := info.TypeOf(x.X)
			if bt == nil {
				return
			}
			if _, isMap := bt.Underlying().(*types.Map); isMap {
				ms["M.*"] = true
				return
			}
			markLhs(x.X)
		case *ast.StarExpr:
			bt := info.TypeOf(x.X)
			if pt, ok := bt.Underlying().(*types.Pointer); ok {
				if st, stt := structOf(pt.Elem()); st != nil {
					ms["F."+p.structName(stt)+".*"] = true
				} else {
					ms["F.$deref.*"] = true
				}
			}
		case *ast.Ident:
			if v, ok := info.ObjectOf(x).(*types.Var); ok && v.Pkg() != nil && v.Parent() == v.Pkg().Scope() {
				ms["g."+v.Pkg().Name()+"."+v.Name()] = true
			}
		}
	}
	ast.Inspect(body, func(n ast.Node) bool {
		switch s := n.(type) {
		case *ast.AssignStmt:
			if s.Tok == token.DEFINE {
				for _, e := range s.Lhs {
					if _, isId := e.(*ast.Ident); !isId {
						markLhs(e)
					}
				}
			} else {
				for _, e := range s.Lhs {
					markLhs(e)
				}
			}
		case *ast.IncDecStmt:
			markLhs(s.X)
		case *ast.RangeStmt:
			if s.Tok == token.ASSIGN {
				if s.Key != nil {
					markLhs(s.Key)
				}
				if s.Value != nil {
					markLhs(s.Value)
				}
			}
		case *ast.SendStmt:
			// channel ghost effects
			ms["$chan"] = true
		case *ast.CallExpr:
			p.modsetCall(fi, s, ms)
		}
		return true
	})
}

func (p *Prog) modsetCall(fi *FuncInfo, ce *ast.CallExpr, ms map[string]bool) {
	info := fi.Pkg.TypesInfo
	fun := ast.Unparen(ce.Fun)
	if tv, ok := info.Types[fun]; ok && tv.IsType() {
		return
	}
	var callee *types.Func
	switch f := fun.(type) {
	case *ast.Ident:
		switch o := info.ObjectOf(f).(type) {
		case *types.Builtin:
			switch o.Name() {
			case "delete":
				ms["M.*"] = true
			case "copy":
				if len(ce.Args) > 0 {
					// writes into the destination slice's field
					e := ce.Args[0]
					for {
						if se, ok := ast.Unparen(e).(*ast.SliceExpr); ok {
							e = se.X
							continue
						}
						break
					}
					if sel, ok := ast.Unparen(e).(*ast.SelectorExpr); ok {
						if st, stt := structOf(info.TypeOf(sel.X)); st != nil {
							ms["F."+p.structName(stt)+"."+sel.Sel.Name] = true
						}
					}
				}
			case "close":
				ms["F.$chan.closed"] = true
			}
			return
		case *types.Func:
			callee = o
		}
	case *ast.SelectorExpr:
		if sel := info.Selections[f]; sel != nil {
			if sel.Kind() == types.FieldVal {
				ms["*"] = true
				return
			}
			callee, _ = sel.Obj().(*types.Func)
		} else {
			callee, _ = info.ObjectOf(f.Sel).(*types.Func)
		}
	case *ast.FuncLit:
		return // body is inspected in place
	}
	if callee == nil {
		ms["*"] = true
		return
	}
	cfi := p.funcByObj[callee]
	if cfi == nil {
		full := callee.FullName()
		switch {
		case strings.HasSuffix(full, "sync.Mutex).Lock") || strings.HasSuffix(full, "sync.Mutex).Unlock") ||
			strings.HasSuffix(full, "sync.RWMutex).Lock") || strings.HasSuffix(full, "sync.RWMutex).Unlock") ||
			strings.HasSuffix(full, "sync.RWMutex).RLock") || strings.HasSuffix(full, "sync.RWMutex).RUnlock"):
			ms["F.$lock.held"] = true
		case strings.HasPrefix(full, "(encoding/binary.bigEndian).Put") || strings.HasPrefix(full, "encoding/binary.Put"):
			if len(ce.Args) > 0 {
				e := ce.Args[0]
				for {
					if se, ok := ast.Unparen(e).(*ast.SliceExpr); ok {
						e = se.X
						continue
					}
					break
				}
				if sel, ok := ast.Unparen(e).(*ast.SelectorExpr); ok {
					if st, stt := structOf(info.TypeOf(sel.X)); st != nil {
						ms["F."+p.structName(stt)+"."+sel.Sel.Name] = true
					}
				}
			}
		case p.contracts["ext."+full] != nil:
			ms["$ghost"] = true
			for _, m := range p.contracts["ext."+full].Modifies {
				ms["$ext:"+m] = true
			}
		default:
			if callsBack(full) {
				// may call back only if given something to call
				for _, a := range ce.Args {
					at := info.TypeOf(a)
					if at == nil {
						continue
					}
					switch u := at.Underlying().(type) {
					case *types.Signature, *types.Interface:
						ms["*"] = true
					case *types.Pointer:
						if st, stt := structOf(u); st != nil && !p.isOpaqueStruct(stt) {
							ms["*"] = true
						}
					}
				}
			}
		}
		return
	}
	if cfi.Iface != nil {
		// union over repo implementations
		impls := p.implementers(callee.Type().(*types.Signature).Recv().Type())
		if len(impls) == 0 {
			ms["*"] = true
			return
		}
		for _, it := range impls {
			if n := namedOf(it); n != "" {
				if ifi := p.funcs[p.keyPrefix(cfi.Pkg)+n+"."+callee.Name()]; ifi != nil {
					for k := range p.modset(ifi) {
						ms[k] = true
					}
				}
			}
		}
		return
	}
	if ct := p.contracts[cfi.Key]; ct != nil && (len(ct.Effects) > 0 || ct.HasModifies) {
		ms["$ghost"] = true
	}
	for k := range p.modset(cfi) {
		ms[k] = true
	}
}

// modsetMatches: does heap variable hv belong to the mod-set?
func modsetMatches(ms map[string]bool, hv string) bool {
	if ms["*"] || ms[hv] {
		return true
	}
	if ghostHeap[hv] && (ms["$ghost"] || ms["$chan"] || ms["$contract"]) {
		return true
	}
	if strings.HasPrefix(hv, "M.") && ms["M.*"] {
		return true
	}
	if strings.HasPrefix(hv, "F.$deref.") && ms["F.$deref.*"] {
		return true
	}
	if strings.HasPrefix(hv, "F.") {
		// F.T.path : match F.T.first or F.T.*
		rest := hv[2:]
		if i := strings.Index(rest, "."); i > 0 {
			tn := rest[:i]
			path := rest[i+1:]
			if ms["F."+tn+".*"] {
				return true
			}
			first := path
			if j := strings.Index(path, "."); j > 0 {
				first = path[:j]
			}
			if ms["F."+tn+"."+first] {
				return true
			}
			// ghost fields change only through contracts / channel effects
			if strings.HasPrefix(first, "$") {
				return ms["$ghost"] || ms["$chan"] || ms["$contract"]
			}
			if ms["$ghost"] || ms["$chan"] {
				// functions with ghost effects may change declared ghost fields
				return false
			}
		}
	}
	return false
}
