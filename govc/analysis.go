package main

import (
	"go/ast"
	"go/token"
	"go/types"
	"os"
	"strings"
)

type ghostFun struct {
	argSorts []string
	resSort  string
	resType  types.Type
}

var fileCache = map[string][]byte{}

func (p *Prog) fileSrc(name string) []byte {
	if b, ok := fileCache[name]; ok {
		return b
	}
	b, err := os.ReadFile(name)
	if err != nil {
		b = nil
	}
	fileCache[name] = b
	return b
}

// globalIsConst: a package-level variable that is never assigned outside its declaration.
func (p *Prog) globalIsConst(o *types.Var) bool {
	if p.globalAssigned == nil {
		p.globalAssigned = map[types.Object]bool{}
		for _, pk := range p.pkgs {
			for _, f := range pk.Syntax {
				if strings.HasSuffix(p.fset.Position(f.Pos()).Filename, "_test.go") {
					continue
				}
				ast.Inspect(f, func(n ast.Node) bool {
					mark := func(e ast.Expr) {
						for {
							switch x := ast.Unparen(e).(type) {
							case *ast.IndexExpr:
								e = x.X
								continue
							case *ast.SelectorExpr:
								if id, ok := x.X.(*ast.Ident); ok {
									if _, isPkg := pk.TypesInfo.ObjectOf(id).(*types.PkgName); isPkg {
										if v, ok := pk.TypesInfo.ObjectOf(x.Sel).(*types.Var); ok {
											p.globalAssigned[v] = true
										}
										return
									}
								}
								e = x.X
								continue
							case *ast.Ident:
								if v, ok := pk.TypesInfo.ObjectOf(x).(*types.Var); ok && v.Pkg() != nil && v.Parent() == v.Pkg().Scope() {
									p.globalAssigned[v] = true
								}
							}
							return
						}
					}
					switch s := n.(type) {
					case *ast.AssignStmt:
						if s.Tok != token.DEFINE {
							for _, e := range s.Lhs {
								mark(e)
							}
						}
					case *ast.IncDecStmt:
						mark(s.X)
					case *ast.UnaryExpr:
						if s.Op == token.AND {
							mark(s.X)
						}
					}
					return true
				})
			}
		}
	}
	return !p.globalAssigned[o]
}

// implementers returns the named repo types (as pointer types where the pointer implements) implementing iface.
func (p *Prog) implementers(t types.Type) []types.Type {
	it, ok := t.Underlying().(*types.Interface)
	if !ok {
		return nil
	}
	key := types.TypeString(t, nil)
	if r, ok := p.implCache[key]; ok {
		return r
	}
	var out []types.Type
	for _, pk := range p.pkgs {
		sc := pk.Types.Scope()
		for _, n := range sc.Names() {
			tn, ok := sc.Lookup(n).(*types.TypeName)
			if !ok || tn.IsAlias() {
				continue
			}
			if _, isIface := tn.Type().Underlying().(*types.Interface); isIface {
				continue
			}
			if types.Implements(tn.Type(), it) {
				out = append(out, tn.Type())
			} else if types.Implements(types.NewPointer(tn.Type()), it) {
				out = append(out, types.NewPointer(tn.Type()))
			}
		}
	}
	if p.implCache == nil {
		p.implCache = map[string][]types.Type{}
	}
	p.implCache[key] = out
	return out
}

// modset: syntactic over-approximation of the heap variables a function may assign
// (field granularity; "*" = anything).
func (p *Prog) modset(fi *FuncInfo) map[string]bool {
	return p.modsetBound(fi, nil)
}

// modsetBound: mod-set of fi when some interface-typed parameters are known to hold the given
// concrete types (one level of context sensitivity, for generic helpers such as decode(buf, in)).
func (p *Prog) modsetBound(fi *FuncInfo, bind map[string]types.Type) map[string]bool {
	key := fi.Key
	if len(bind) > 0 {
		var ks []string
		for k, t := range bind {
			ks = append(ks, k+"="+types.TypeString(t, nil))
		}
		sortStrings(ks)
		key += "|" + strings.Join(ks, ",")
	}
	if ms, ok := p.modsets[key]; ok {
		return ms
	}
	ms := map[string]bool{}
	p.modsets[key] = ms // cycle guard: recursion sees the partial set
	if fi.Body == nil {
		if ct := p.contracts[fi.Key]; ct != nil && ct.HasModifies {
			ms["$contract"] = true
		} else if fi.Iface != nil && fi.Obj != nil {
			// interface method: union over the implementations inside the repository; implementations
			// supplied by the application are assumed not to write the package's objects (A-iface)
			for _, it := range p.implementers(fi.Obj.Type().(*types.Signature).Recv().Type()) {
				if n := namedOf(it); n != "" {
					if ifi := p.funcs[p.keyPrefix(fi.Pkg)+n+"."+fi.Obj.Name()]; ifi != nil && ifi != fi {
						for k := range p.modset(ifi) {
							ms[k] = true
						}
					}
				}
			}
		} else {
			ms["*"] = true
		}
		return ms
	}
	p.modsetOf(fi, fi.Body, ms, bind)
	return ms
}

func sortStrings(s []string) {
	for i := 1; i < len(s); i++ {
		for j := i; j > 0 && s[j] < s[j-1]; j-- {
			s[j], s[j-1] = s[j-1], s[j]
		}
	}
}

func (p *Prog) modsetOf(fi *FuncInfo, body ast.Node, ms map[string]bool, bind map[string]types.Type) {
	info := fi.Pkg.TypesInfo
	var markLhs func(e ast.Expr)
	markLhs = func(e ast.Expr) {
		switch x := ast.Unparen(e).(type) {
		case *ast.SelectorExpr:
			bt := info.TypeOf(x.X)
			if bt == nil {
				return
			}
			st, stt := structOf(bt)
			if st == nil {
				return
			}
			if isPointer(bt) {
				// all paths starting with this field
				ms["F."+p.structName(stt)+"."+x.Sel.Name] = true
				return
			}
			markLhs(x.X)
		case *ast.IndexExpr:
			bt := info.TypeOf(x.X)
			if bt == nil {
				return
			}
			if _, isMap := bt.Underlying().(*types.Map); isMap {
				ms["M.*"] = true
				return
			}
			markLhs(x.X)
		case *ast.StarExpr:
			bt := info.TypeOf(x.X)
			if pt, ok := bt.Underlying().(*types.Pointer); ok {
				if st, stt := structOf(pt.Elem()); st != nil {
					ms["F."+p.structName(stt)+".*"] = true
				} else {
					ms["F.$deref.*"] = true
				}
			}
		case *ast.Ident:
			if v, ok := info.ObjectOf(x).(*types.Var); ok && v.Pkg() != nil && v.Parent() == v.Pkg().Scope() {
				ms["g."+v.Pkg().Name()+"."+v.Name()] = true
			}
		}
	}
	ast.Inspect(body, func(n ast.Node) bool {
		switch s := n.(type) {
		case *ast.AssignStmt:
			if s.Tok == token.DEFINE {
				for _, e := range s.Lhs {
					if _, isId := e.(*ast.Ident); !isId {
						markLhs(e)
					}
				}
			} else {
				for _, e := range s.Lhs {
					markLhs(e)
				}
			}
		case *ast.IncDecStmt:
			markLhs(s.X)
		case *ast.RangeStmt:
			if s.Tok == token.ASSIGN {
				if s.Key != nil {
					markLhs(s.Key)
				}
				if s.Value != nil {
					markLhs(s.Value)
				}
			}
		case *ast.SendStmt:
			// channel ghost effects
			ms["$chan"] = true
			ms["F.$chan.sent.*"] = true
		case *ast.CallExpr:
			p.modsetCall(fi, s, ms, bind)
		}
		return true
	})
}

func (p *Prog) modsetCall(fi *FuncInfo, ce *ast.CallExpr, ms map[string]bool, bind map[string]types.Type) {
	info := fi.Pkg.TypesInfo
	fun := ast.Unparen(ce.Fun)
	if tv, ok := info.Types[fun]; ok && tv.IsType() {
		return
	}
	var callee *types.Func
	switch f := fun.(type) {
	case *ast.Ident:
		switch o := info.ObjectOf(f).(type) {
		case *types.Builtin:
			switch o.Name() {
			case "delete":
				ms["M.*"] = true
			case "copy":
				if len(ce.Args) > 0 {
					// writes into the destination slice's field
					e := ce.Args[0]
					for {
						if se, ok := ast.Unparen(e).(*ast.SliceExpr); ok {
							e = se.X
							continue
						}
						break
					}
					if sel, ok := ast.Unparen(e).(*ast.SelectorExpr); ok {
						if st, stt := structOf(info.TypeOf(sel.X)); st != nil {
							ms["F."+p.structName(stt)+"."+sel.Sel.Name] = true
						}
					}
				}
			case "close":
				ms["F.$chan.closed"] = true
			}
			return
		case *types.Func:
			callee = o
		}
	case *ast.SelectorExpr:
		if sel := info.Selections[f]; sel != nil {
			if sel.Kind() == types.FieldVal {
				ms["*"] = true
				return
			}
			callee, _ = sel.Obj().(*types.Func)
		} else {
			callee, _ = info.ObjectOf(f.Sel).(*types.Func)
		}
	case *ast.FuncLit:
		return // body is inspected in place
	}
	if callee == nil {
		ms["*"] = true
		return
	}
	cfi := p.funcByObj[callee]
	if cfi == nil {
		full := callee.FullName()
		switch {
		case strings.HasSuffix(full, "sync.Mutex).Lock") || strings.HasSuffix(full, "sync.Mutex).Unlock") ||
			strings.HasSuffix(full, "sync.RWMutex).Lock") || strings.HasSuffix(full, "sync.RWMutex).Unlock") ||
			strings.HasSuffix(full, "sync.RWMutex).RLock") || strings.HasSuffix(full, "sync.RWMutex).RUnlock"):
			ms["F.$lock.held"] = true
		case full == "(*sync.WaitGroup).Add" || full == "(*sync.WaitGroup).Done":
			ms["F.$wg.count"] = true
		case strings.HasPrefix(full, "(encoding/binary.bigEndian).Put") || strings.HasPrefix(full, "encoding/binary.Put"):
			if len(ce.Args) > 0 {
				e := ce.Args[0]
				for {
					if se, ok := ast.Unparen(e).(*ast.SliceExpr); ok {
						e = se.X
						continue
					}
					break
				}
				if sel, ok := ast.Unparen(e).(*ast.SelectorExpr); ok {
					if st, stt := structOf(info.TypeOf(sel.X)); st != nil {
						ms["F."+p.structName(stt)+"."+sel.Sel.Name] = true
					}
				}
			}
		case p.contracts["ext."+full] != nil:
			ms["$ghost"] = true
			for _, m := range p.contracts["ext."+full].Modifies {
				ms["$ext:"+m] = true
			}
		default:
			if callsBack(full) {
				// may call back only if given something to call
				for _, a := range ce.Args {
					at := info.TypeOf(a)
					if at == nil {
						continue
					}
					switch u := at.Underlying().(type) {
					case *types.Signature:
						if fl, isLit := ast.Unparen(a).(*ast.FuncLit); isLit {
							// the literal's own writes are found by inspecting its body (it is part of this function)
							_ = fl
						} else {
							ms["*"] = true
						}
					case *types.Interface:
						ms["*"] = true
					case *types.Pointer:
						if st, stt := structOf(u); st != nil && !p.isOpaqueStruct(stt) {
							ms["*"] = true
						}
					}
				}
			}
		}
		return
	}
	if ct := p.contracts[cfi.Key]; ct != nil && ct.HasModifies {
		// a contract with a modifies clause bounds the effects: translate its items to field granularity
		p.contractModset(ct, cfi, ms)
		return
	}
	if cfi.Iface != nil {
		// receiver is a parameter bound to a concrete type in this context
		if sel, ok := fun.(*ast.SelectorExpr); ok {
			if id, ok := ast.Unparen(sel.X).(*ast.Ident); ok {
				if ct, ok := bind[id.Name]; ok {
					if n := namedOf(ct); n != "" {
						if ifi := p.funcs[p.keyPrefix(cfi.Pkg)+n+"."+callee.Name()]; ifi != nil && ifi.Body != nil {
							for k := range p.modset(ifi) {
								ms[k] = true
							}
							return
						}
					}
				}
			}
			// receiver with a concrete static type
			if rt := info.TypeOf(sel.X); rt != nil {
				if _, isIface := rt.Underlying().(*types.Interface); !isIface {
					if n := namedOf(rt); n != "" {
						if ifi := p.funcs[p.keyPrefix(cfi.Pkg)+n+"."+callee.Name()]; ifi != nil && ifi.Body != nil {
							for k := range p.modset(ifi) {
								ms[k] = true
							}
							return
						}
					}
				}
			}
		}
		// union over repo implementations
		impls := p.implementers(callee.Type().(*types.Signature).Recv().Type())
		if len(impls) == 0 {
			// only the application can implement it: assumed not to write the package's objects (A-iface)
			return
		}
		for _, it := range impls {
			if n := namedOf(it); n != "" {
				if ifi := p.funcs[p.keyPrefix(cfi.Pkg)+n+"."+callee.Name()]; ifi != nil {
					for k := range p.modset(ifi) {
						ms[k] = true
					}
				}
			}
		}
		return
	}
	if ct := p.contracts[cfi.Key]; ct != nil && (len(ct.Effects) > 0 || len(ct.CallSiteMods) > 0) {
		ms["$ghost"] = true
	}
	// bind interface parameters to the concrete static types of the arguments
	var cb map[string]types.Type
	csig := callee.Type().(*types.Signature)
	for i := 0; i < csig.Params().Len() && i < len(ce.Args); i++ {
		pv := csig.Params().At(i)
		if _, isIface := pv.Type().Underlying().(*types.Interface); !isIface {
			continue
		}
		at := info.TypeOf(ce.Args[i])
		if at == nil {
			continue
		}
		if id, ok := ast.Unparen(ce.Args[i]).(*ast.Ident); ok {
			if bt, ok := bind[id.Name]; ok {
				at = bt
			}
		}
		if _, argIface := at.Underlying().(*types.Interface); argIface {
			continue
		}
		if namedOf(at) == "" {
			continue
		}
		if cb == nil {
			cb = map[string]types.Type{}
		}
		cb[pv.Name()] = at
	}
	for k := range p.modsetBound(cfi, cb) {
		ms[k] = true
	}
}

// modsetMatches: does heap variable hv belong to the mod-set?
func modsetMatches(ms map[string]bool, hv string) bool {
	if ms["*"] || ms[hv] {
		return true
	}
	if ghostHeap[hv] && (ms["$ghost"] || ms["$chan"] || ms["$contract"]) {
		return true
	}
	if strings.HasPrefix(hv, "M.") && ms["M.*"] {
		return true
	}
	if strings.HasPrefix(hv, "F.$deref.") && ms["F.$deref.*"] {
		return true
	}
	if strings.HasPrefix(hv, "F.$chan.sent.") && (ms["F.$chan.sent.*"] || ms["$chan"]) {
		return true
	}
	if strings.HasPrefix(hv, "F.") {
		// F.T.path : match F.T.first or F.T.*
		rest := hv[2:]
		if i := strings.Index(rest, "."); i > 0 {
			tn := rest[:i]
			path := rest[i+1:]
			if ms["F."+tn+".*"] {
				return true
			}
			first := path
			if j := strings.Index(path, "."); j > 0 {
				first = path[:j]
			}
			if ms["F."+tn+"."+first] {
				return true
			}
			// ghost fields change only through contracts / channel effects
			if strings.HasPrefix(first, "$") {
				return ms["$ghost"] || ms["$chan"] || ms["$contract"]
			}
			if ms["$ghost"] || ms["$chan"] {
				// functions with ghost effects may change declared ghost fields
				return false
			}
		}
	}
	return false
}

// contractModset adds the heap variables named by a contract's modifies clause (field granularity).
func (p *Prog) contractModset(ct *Contract, fi *FuncInfo, ms map[string]bool) {
	// ghost state changes only as far as the modifies clause says (ghost fields are named there like real ones)
	typeOfName := func(name string) types.Type {
		if fi.Sig == nil {
			return nil
		}
		if fi.Sig.Recv() != nil && (name == ct.RecvName || name == fi.Sig.Recv().Name()) {
			return fi.Sig.Recv().Type()
		}
		for i := 0; i < fi.Sig.Params().Len(); i++ {
			pv := fi.Sig.Params().At(i)
			if pv.Name() == name || (i < len(ct.Params) && ct.Params[i] == name) {
				return pv.Type()
			}
		}
		return nil
	}
	addType := func(t types.Type, field string) {
		if t == nil {
			ms["*"] = true
			return
		}
		if _, isIface := t.Underlying().(*types.Interface); isIface {
			ms["F."+p.structName(t)+".*"] = true
			for _, it := range p.implementers(t) {
				if st, stt := structOf(it); st != nil {
					if field == "" {
						ms["F."+p.structName(stt)+".*"] = true
					} else {
						ms["F."+p.structName(stt)+"."+field] = true
					}
				}
			}
			return
		}
		if st, stt := structOf(t); st != nil {
			if field == "" {
				ms["F."+p.structName(stt)+".*"] = true
			} else {
				ms["F."+p.structName(stt)+"."+field] = true
			}
			return
		}
		ms["*"] = true
	}
	for _, m := range ct.Modifies {
		m = strings.TrimSpace(m)
		switch {
		case m == "*":
			ms["*"] = true
		case m == "maps" || strings.HasPrefix(m, "map:"):
			ms["M.*"] = true
		case m == "$wg":
			ms["F.$wg.count"] = true
		case m == "$chanclosed":
			ms["F.$chan.closed"] = true
		case m == "":
		default:
			parts := strings.Split(m, ".")
			if len(parts) < 2 {
				ms["*"] = true
				continue
			}
			base := parts[0]
			t := typeOfName(base)
			if t == nil {
				// Type.field
				if tn, ok := fi.Pkg.Types.Scope().Lookup(base).(*types.TypeName); ok {
					ms["F."+p.structName(tn.Type())+"."+strings.TrimPrefix(parts[1], "$")] = true
					ms["F."+p.structName(tn.Type())+".$"+strings.TrimPrefix(parts[1], "$")] = true
					continue
				}
				ms["*"] = true
				continue
			}
			// follow intermediate fields
			for _, f := range parts[1 : len(parts)-1] {
				st, stt := structOf(t)
				if st == nil {
					t = nil
					break
				}
				obj, _, _ := types.LookupFieldOrMethod(stt, true, fi.Pkg.Types, f)
				if v, ok := obj.(*types.Var); ok {
					t = v.Type()
				} else {
					t = nil
					break
				}
			}
			last := parts[len(parts)-1]
			if last == "*" {
				addType(t, "")
			} else {
				addType(t, last)
			}
		}
	}
}

// globalInit finds the initialiser expression of a package-level variable of the loaded packages
// (nil, false when the variable has none or is initialised by a multi-value call).
func (p *Prog) globalInit(o *types.Var) (ast.Expr, bool) {
	if p.globalInits == nil {
		p.globalInits = map[types.Object]ast.Expr{}
		p.globalDecl = map[types.Object]bool{}
		for _, pk := range p.pkgs {
			for _, f := range pk.Syntax {
				for _, d := range f.Decls {
					gd, ok := d.(*ast.GenDecl)
					if !ok || gd.Tok != token.VAR {
						continue
					}
					for _, sp := range gd.Specs {
						vs := sp.(*ast.ValueSpec)
						for i, nm := range vs.Names {
							obj := pk.TypesInfo.Defs[nm]
							if obj == nil {
								continue
							}
							p.globalDecl[obj] = true
							if len(vs.Values) == len(vs.Names) {
								p.globalInits[obj] = vs.Values[i]
							}
						}
					}
				}
			}
		}
	}
	e, ok := p.globalInits[o]
	return e, ok
}

// globalNilness classifies a never-assigned package-level variable of reference kind by its initialiser:
// +1 certainly non-nil (call, composite literal, address-of, function literal), -1 certainly nil (no
// initialiser, or the literal nil), 0 unknown.
func (p *Prog) globalNilness(o *types.Var) int {
	e, has := p.globalInit(o)
	if !has {
		if p.globalDecl[o] {
			return -1 // declared in the loaded packages without an initialiser: the zero value
		}
		return 0 // a variable of a dependency: initialiser not loaded
	}
	switch x := ast.Unparen(e).(type) {
	case *ast.Ident:
		if x.Name == "nil" {
			return -1
		}
	case *ast.CompositeLit, *ast.FuncLit:
		return 1
	case *ast.UnaryExpr:
		if x.Op == token.AND {
			return 1
		}
	case *ast.CallExpr:
		// constructors of the standard library and the repository used for package-level values return
		// non-nil values (errors.New, fmt.Errorf, regexp.MustCompile, metrics/New..., make); conversions keep
		// the operand
		if id, ok := x.Fun.(*ast.Ident); ok && id.Name == "make" {
			return 1
		}
		if sel, ok := x.Fun.(*ast.SelectorExpr); ok {
			if pkg, ok := sel.X.(*ast.Ident); ok {
				switch pkg.Name + "." + sel.Sel.Name {
				case "errors.New", "fmt.Errorf", "regexp.MustCompile", "log.New":
					return 1
				}
			}
		}
	}
	return 0
}
